(* Props/C09e.v — C09, wave 5: what the GENERATED main part of cp_als (Gen/GenCpAls.v, regenerated from /repo/pyttb/cp_als.py on every
   run by tools/pyx2v_skel.py) REPORTS when it prints and when maxiters = 0, for all kernels; and, with the innerprod / residual kernels
   instantiated over a commutative ring (squares of the code's quantities; every other kernel arbitrary), that the reported squared
   residual is ||X - M||^2 of the RETURNED model for every holder tied to its denotation.  Depends on Proofs/W4SCpAls.v (w4-skel).
   Only statements, `exact`, Print Assumptions and a non-vacuity example. *)
From Coq Require Import String List Arith Bool ZArith Ring.
From PV Require Import Base.Index Base.Sum Np.Array Model.Sparse Model.Repr Model.W4SPrelude Gen.GenCpAls Model.C09Als Model.C02Spec
  Proofs.W4SCpAls Proofs.C09Norm Proofs.C09Inner Proofs.C09GenReport Proofs.C09GenSweep Proofs.C09Monotone Proofs.C09Holders Proofs.C09GenSaved Proofs.C09GenSilent.
Import ListNotations.

Section C09e.
Variables T_F T_Mat T_UtU T_Wt T_K T_X : Type.
Variable c_leF : T_F -> T_F -> bool.
Variable c_zeroF : T_F.
Variable k_init_factors : T_K -> list T_Mat.
Variable k_restrict_dims : list nat -> list nat -> list nat.
Variable k_zeros_mttkrp : T_X -> list nat -> nat -> T_Mat.
Variable k_zeros_utu : nat -> nat -> T_UtU.
Variable k_set_gram : T_UtU -> nat -> list T_Mat -> T_UtU.
Variable k_ktensor_init : list T_Mat -> T_K -> T_K.
Variable k_innerprod : T_X -> T_K -> T_F.
Variable k_is_zero : T_F -> bool.
Variable k_resid0 : T_K -> T_F -> T_F.
Variable k_resid : T_F -> T_K -> T_F -> T_F.
Variable k_fit : T_F -> T_F -> T_F.
Variable k_mttkrp : T_X -> list T_Mat -> nat -> T_Mat.
Variable k_hadamard_others : T_UtU -> nat -> nat -> T_Mat.
Variable k_all_zero_mat : T_Mat -> bool.
Variable k_zeros_like : T_Mat -> T_Mat.
Variable k_solve : T_Mat -> T_Mat -> T_Mat.
Variable k_norm2_cols : T_Mat -> T_Wt.
Variable k_normmax_cols : T_Mat -> T_Wt.
Variable k_all_zero_wt : T_Wt -> bool.
Variable k_scale_cols : T_Mat -> T_Wt -> T_Mat.
Variable k_ktensor : list T_Mat -> T_Wt -> T_K.
Variable k_iprod : T_K -> list nat -> T_Mat -> T_Wt -> T_F.
Variable k_absdiff : T_F -> T_F -> T_F.
Variable k_arrange : T_K -> T_K.
Variable k_fixsigns : T_K -> T_K.

Notation gmain := (GenCpAls.cp_als_main T_F T_Mat T_UtU T_Wt T_K T_X c_leF c_zeroF k_init_factors k_restrict_dims k_zeros_mttkrp k_zeros_utu
  k_set_gram k_ktensor_init k_innerprod k_is_zero k_resid0 k_resid k_fit k_mttkrp k_hadamard_others k_all_zero_mat k_zeros_like k_solve
  k_norm2_cols k_normmax_cols k_all_zero_wt k_scale_cols k_ktensor k_iprod k_absdiff k_arrange k_fixsigns).
Notation hform := (h_formulas T_F T_K k_is_zero k_resid0 k_resid k_fit).

(* printing runs (printitn > 0), every iteration limit: the reported (normresidual, fit) is the code's formula pair applied to
   input_tensor.innerprod(M) of the RETURNED model M (after arrange / fixsigns) — all kernels arbitrary *)
Theorem C09_gen_print_report : forall X init normX N rank dimorder optdims maxiters stoptol printitn dofix Mret initret iters nr fit,
  gmain X init normX N rank dimorder optdims maxiters stoptol printitn dofix = Some (Mret, initret, (iters, nr, fit)) ->
  0 < printitn ->
  (nr, fit) = hform normX Mret (k_innerprod X Mret).
Proof. exact (gen_print_report T_F T_Mat T_UtU T_Wt T_K T_X c_leF c_zeroF k_init_factors k_restrict_dims k_zeros_mttkrp k_zeros_utu
  k_set_gram k_ktensor_init k_innerprod k_is_zero k_resid0 k_resid k_fit k_mttkrp k_hadamard_others k_all_zero_mat k_zeros_like k_solve
  k_norm2_cols k_normmax_cols k_all_zero_wt k_scale_cols k_ktensor k_iprod k_absdiff k_arrange k_fixsigns). Qed.

(* silent runs with maxiters = 0: iters = 0 and the reported pair is the formula pair on innerprod(X, M0), M0 = the model of the start *)
Theorem C09_gen_zero_report : forall X init normX N rank dimorder optdims stoptol dofix Mret initret iters nr fit,
  gmain X init normX N rank dimorder optdims 0 stoptol 0 dofix = Some (Mret, initret, (iters, nr, fit)) ->
  let M0 := k_ktensor_init (k_init_factors init) init in
  (nr, fit) = hform normX M0 (k_innerprod X M0) /\ iters = 0.
Proof. exact (gen_zero_report T_F T_Mat T_UtU T_Wt T_K T_X c_leF c_zeroF k_init_factors k_restrict_dims k_zeros_mttkrp k_zeros_utu
  k_set_gram k_ktensor_init k_innerprod k_is_zero k_resid0 k_resid k_fit k_mttkrp k_hadamard_others k_all_zero_mat k_zeros_like k_solve
  k_norm2_cols k_normmax_cols k_all_zero_wt k_scale_cols k_ktensor k_iprod k_absdiff k_arrange k_fixsigns). Qed.
End C09e.

Section C09eRing.
Variable V : Type.
Variables (v0 v1 : V) (vadd vmul vsub : V -> V -> V) (vopp : V -> V).
Hypothesis Vring : ring_theory v0 v1 vadd vmul vsub vopp (@eq V).
Variables T_Mat T_UtU T_Wt T_X : Type.
Variable shape_of : T_X -> shape.
Variable den_of : T_X -> idx -> V.
Variable ttv_of : T_X -> list (list V) -> V.
Variable c_leF : V -> V -> bool.
Variable c_zeroF : V.
Variable k_init_factors : ktensor V -> list T_Mat.
Variable k_restrict_dims : list nat -> list nat -> list nat.
Variable k_zeros_mttkrp : T_X -> list nat -> nat -> T_Mat.
Variable k_zeros_utu : nat -> nat -> T_UtU.
Variable k_set_gram : T_UtU -> nat -> list T_Mat -> T_UtU.
Variable k_ktensor_init : list T_Mat -> ktensor V -> ktensor V.
Variable k_is_zero : V -> bool.
Variable k_fit : V -> V -> V.
Variable k_mttkrp : T_X -> list T_Mat -> nat -> T_Mat.
Variable k_hadamard_others : T_UtU -> nat -> nat -> T_Mat.
Variable k_all_zero_mat : T_Mat -> bool.
Variable k_zeros_like : T_Mat -> T_Mat.
Variable k_solve : T_Mat -> T_Mat -> T_Mat.
Variable k_norm2_cols : T_Mat -> T_Wt.
Variable k_normmax_cols : T_Mat -> T_Wt.
Variable k_all_zero_wt : T_Wt -> bool.
Variable k_scale_cols : T_Mat -> T_Wt -> T_Mat.
Variable k_ktensor : list T_Mat -> T_Wt -> ktensor V.
Variable k_iprod : ktensor V -> list nat -> T_Mat -> T_Wt -> V.
Variable k_absdiff : V -> V -> V.
Variable k_arrange : ktensor V -> ktensor V.
Variable k_fixsigns : ktensor V -> ktensor V.

Notation gmainq := (GenCpAls.cp_als_main V T_Mat T_UtU T_Wt (ktensor V) T_X c_leF c_zeroF k_init_factors k_restrict_dims k_zeros_mttkrp
  k_zeros_utu k_set_gram k_ktensor_init (kq_innerprod V v0 vadd vmul T_X ttv_of) k_is_zero (kq_resid0 V v0 vadd vmul vsub)
  (kq_resid V v0 vadd vmul vsub) k_fit k_mttkrp k_hadamard_others k_all_zero_mat
  k_zeros_like k_solve k_norm2_cols k_normmax_cols k_all_zero_wt k_scale_cols k_ktensor k_iprod k_absdiff k_arrange k_fixsigns).

(* the generated main with  input_tensor.innerprod(M) := ktensor.innerprod's loop over the holder's own all-modes ttv (kq_innerprod),
   the value under the square root := normX^2 + M.norm()^2 (Gram / Hadamard form) - 2 iprod (kq_resid; kq_resid0 when normX == 0),
   every other kernel arbitrary: whenever it returns with printing on, for a holder X whose ttv is tied to its denotation and a
   returned model of X's shape, the reported squared residual IS ||X - M||^2 of the RETURNED model and the fit is the code's formula
   of it; for data whose norm is reported as 0 (sum tensors) both reported values are ||M||^2 - 2 <X, M> *)
Theorem C09_gen_print_residual : forall X init normX2 N rank dimorder optdims maxiters stoptol printitn dofix Mret initret iters nr fit,
  gmainq X init normX2 N rank dimorder optdims maxiters stoptol printitn dofix = Some (Mret, initret, (iters, nr, fit)) ->
  0 < printitn -> kshape Mret = shape_of X -> ttvall_ok V v0 vadd vmul (shape_of X) (den_of X) (ttv_of X) ->
  (k_is_zero normX2 = false -> normX2 = normsq_den v0 vadd vmul (shape_of X) (den_of X) ->
     nr = resid_den v0 vadd vmul vsub (shape_of X) (den_of X) (den_k v0 v1 vadd vmul Mret) /\ fit = k_fit nr normX2) /\
  (k_is_zero normX2 = true ->
     nr = vsub (normsq_den v0 vadd vmul (shape_of X) (den_k v0 v1 vadd vmul Mret))
               (vadd (innerprod_den v0 vadd vmul (shape_of X) (den_of X) (den_k v0 v1 vadd vmul Mret))
                     (innerprod_den v0 vadd vmul (shape_of X) (den_of X) (den_k v0 v1 vadd vmul Mret))) /\ fit = nr).
Proof. exact (gen_print_residual V v0 v1 vadd vmul vsub vopp Vring T_Mat T_UtU T_Wt T_X shape_of den_of ttv_of c_leF c_zeroF k_init_factors
  k_restrict_dims k_zeros_mttkrp k_zeros_utu k_set_gram k_ktensor_init k_is_zero k_fit k_mttkrp k_hadamard_others k_all_zero_mat
  k_zeros_like k_solve k_norm2_cols k_normmax_cols k_all_zero_wt k_scale_cols k_ktensor k_iprod k_absdiff k_arrange k_fixsigns). Qed.
End C09eRing.

Section C09eSweep.
Variable V : Type.
Variables (v0 v1 : V) (vadd vmul vsub : V -> V -> V) (vopp : V -> V).
Hypothesis Vring : ring_theory v0 v1 vadd vmul vsub vopp (@eq V).
Variable T_X : Type.
Variable R : nat.
Variable mk : T_X -> list (@matrix V) -> nat -> @matrix V.
Variable all_zero_mat : @matrix V -> bool.
Variable zeros_like : @matrix V -> @matrix V.
Variable lapack : @matrix V -> @matrix V -> @matrix V.
Variables norm2_cols normmax_cols : @matrix V -> list V.
Variable all_zero_wt : list V -> bool.
Variable scale_cols : @matrix V -> list V -> @matrix V.
Variables T_F T_K : Type.
Variable k_ktensor : list (@matrix V) -> list V -> T_K.
Variable k_iprod : T_K -> list nat -> @matrix V -> list V -> T_F.

(* one pass of the generated outer-loop body (w4-skel's h_sweep = generated inner loop + `M = ttb.ktensor(U, weights)` + iprod): the
   matrix kept by `if n == dimorder[-1]: U_mttkrp = Unew` and handed to the iprod formula IS st_P of the hand model's sweep — the
   MTTKRP the holder returned for the mode updated last, taken before that mode was overwritten (strengthens C09_gen_hsweep_bridge,
   where it is existential); all kernels arbitrary *)
Theorem C09_gen_hsweep_saved : forall (X : T_X) (N : nat) (dimorder : list nat) (k : nat) (U : list (@matrix V)) (Um : @matrix V)
    (n0 : option nat) (mi : option (T_K * T_F)) (w : list V) (P : @matrix V) (t : nat),
  sk_last dimorder = Some t -> (forall x, In x dimorder -> x < length U) ->
  let st' := als_sweep v0 v1 vadd vmul (mk X) (code_solve V all_zero_mat zeros_like lapack)
               (code_scale V norm2_cols normmax_cols all_zero_wt scale_cols) R k dimorder (mkAls w U P) in
  h_sweep T_F (@matrix V) (list (@matrix V)) (list V) T_K T_X (g_set_gram V) mk (g_hadamard_others V v0 v1 vadd vmul R)
    all_zero_mat zeros_like lapack norm2_cols normmax_cols all_zero_wt scale_cols k_ktensor k_iprod N dimorder X k ((U, Um, U, n0), mi)
  = ((st_U st', st_P st', st_U st', Some t),
     Some (k_ktensor (st_U st') (st_w st'), k_iprod (k_ktensor (st_U st') (st_w st')) dimorder (st_P st') (st_w st'))).
Proof. exact (gen_hsweep_saved V v0 v1 vadd vmul T_X R mk all_zero_mat zeros_like lapack norm2_cols normmax_cols all_zero_wt scale_cols
  T_F T_K k_ktensor k_iprod). Qed.

(* ... and with M := ktensor(U, weights), iprod := sum(sum(U_mttkrp * U[dimorder[-1]], 0) * weights) (kq_ktensor, kq_iprod) the value
   under the square root of the in-loop report, normX^2 + M.norm()^2 - 2 iprod, computed by ONE PASS OF THE GENERATED LOOP BODY with the
   holder's own mttkrp algorithm, is ||X - M||^2 of the model that pass builds — every solve / norm / scaling kernel arbitrary (no
   LAPACK contract), hypotheses only on shapes: the state before the last update is well-formed and the last update keeps the rank
   and the row count *)
Theorem C09_gen_sweep_residual : forall (X : T_X) (s : shape) (Xd : idx -> V) (good : list (@matrix V) -> nat -> Prop)
    (N : nat) (dimorder : list nat) (k : nat) (U : list (@matrix V)) (Um : @matrix V) (n0 : option nat) (mi : option (ktensor V * V))
    (w : list V) (P : @matrix V) (n : nat) (normX2 : V),
  holder_ok V v0 v1 vadd vmul R s Xd (mk X) good ->
  sk_last dimorder = Some n -> (forall x, In x dimorder -> x < length U) ->
  let cs := code_solve V all_zero_mat zeros_like lapack in
  let cc := code_scale V norm2_cols normmax_cols all_zero_wt scale_cols in
  let stb := als_sweep v0 v1 vadd vmul (mk X) cs cc R k (removelast dimorder) (mkAls w U P) in
  st_wf V R s stb -> n < length s -> good (st_U stb) n ->
  let st' := als_sweep v0 v1 vadd vmul (mk X) cs cc R k dimorder (mkAls w U P) in
  length (st_w st') = R -> nrows (nth n (st_U st') []) = nth n s 0 ->
  normX2 = normsq_den v0 vadd vmul s Xd ->
  exists l ip,
    h_sweep V (@matrix V) (list (@matrix V)) (list V) (ktensor V) T_X (g_set_gram V) mk (g_hadamard_others V v0 v1 vadd vmul R)
      all_zero_mat zeros_like lapack norm2_cols normmax_cols all_zero_wt scale_cols (kq_ktensor V) (kq_iprod V v0 vadd vmul)
      N dimorder X k ((U, Um, U, n0), mi) = (l, Some (st_model st', ip)) /\
    kq_resid V v0 vadd vmul vsub normX2 (st_model st') ip
    = resid_den v0 vadd vmul vsub s Xd (den_k v0 v1 vadd vmul (st_model st')).
Proof. exact (gen_sweep_residual V v0 v1 vadd vmul vsub vopp Vring T_X R mk all_zero_mat zeros_like lapack norm2_cols normmax_cols
  all_zero_wt scale_cols). Qed.
End C09eSweep.

Section C09eSilent.
Variable V : Type.
Variables (v0 v1 : V) (vadd vmul vsub : V -> V -> V) (vopp : V -> V).
Hypothesis Vring : ring_theory v0 v1 vadd vmul vsub vopp (@eq V).
Variable T_X : Type.
Variable R : nat.
Variable mk : T_X -> list (@matrix V) -> nat -> @matrix V.
Variable all_zero_mat : @matrix V -> bool.
Variable zeros_like : @matrix V -> @matrix V.
Variable lapack : @matrix V -> @matrix V -> @matrix V.
Variables norm2_cols normmax_cols : @matrix V -> list V.
Variable all_zero_wt : list V -> bool.
Variable scale_cols : @matrix V -> list V -> @matrix V.
Variable c_leF : V -> V -> bool.
Variable c_zeroF : V.
Variable k_init_factors : ktensor V -> list (@matrix V).
Variable k_restrict_dims : list nat -> list nat -> list nat.
Variable k_zeros_mttkrp : T_X -> list nat -> nat -> @matrix V.
Variable k_zeros_utu : nat -> nat -> list (@matrix V).
Variable k_ktensor_init : list (@matrix V) -> ktensor V -> ktensor V.
Variable k_innerprod : T_X -> ktensor V -> V.
Variable k_is_zero : V -> bool.
Variable k_fit : V -> V -> V.
Variable k_absdiff : V -> V -> V.
Variable k_arrange : ktensor V -> ktensor V.
Variable k_fixsigns : ktensor V -> ktensor V.

(* SILENT runs (printitn = 0, maxiters > 0) of the GENERATED main, end to end: with M := ktensor(U, weights), iprod from the saved MTTKRP,
   the value under the square root := normX^2 + M.norm()^2 - 2 iprod, the Gram slabs / Hadamard product as coded and the holder's own
   mttkrp algorithm — every solve / guard / norm / scaling / stop-rule / arrange / fixsigns kernel ARBITRARY — whenever the generated
   main returns (Mret, initret, {iters, normresidual^2 = nr, fit}): nr is ||X - M'||^2 of the model M' built by the LAST EXECUTED sweep
   (sweep number `iters` of the hand model's iteration from the start's factors), fit is the code's formula of it, the returned model is
   arrange / fixsigns of M', iters < maxiters and the returned guess is the caller's.  Hypotheses on shapes only: the state before the
   last update is well-formed, the last update keeps the rank and the row count. *)
Theorem C09_gen_silent_residual : forall (X : T_X) (s : shape) (Xd : idx -> V) (good : list (@matrix V) -> nat -> Prop)
    init normX2 N rank dimorder optdims maxiters stoptol dofix Mret initret iters nr fit (n : nat),
  let cs := code_solve V all_zero_mat zeros_like lapack in
  let cc := code_scale V norm2_cols normmax_cols all_zero_wt scale_cols in
  GenCpAls.cp_als_main V (@matrix V) (list (@matrix V)) (list V) (ktensor V) T_X c_leF c_zeroF k_init_factors k_restrict_dims
    k_zeros_mttkrp k_zeros_utu (g_set_gram V) k_ktensor_init k_innerprod k_is_zero (kq_resid0 V v0 vadd vmul vsub) (kq_resid V v0 vadd vmul vsub)
    k_fit mk (g_hadamard_others V v0 v1 vadd vmul R) all_zero_mat zeros_like lapack norm2_cols normmax_cols all_zero_wt scale_cols
    (kq_ktensor V) (kq_iprod V v0 vadd vmul) k_absdiff k_arrange k_fixsigns
    X init normX2 N rank dimorder optdims maxiters stoptol 0 dofix = Some (Mret, initret, (iters, nr, fit)) ->
  0 < maxiters -> k_is_zero normX2 = false ->
  let U0 := k_init_factors init in
  let dims := k_restrict_dims dimorder optdims in
  N = length U0 -> length (k_zeros_utu rank N) = N ->
  sk_last dims = Some n -> (forall x, In x dims -> x < length U0) ->
  holder_ok V v0 v1 vadd vmul R s Xd (mk X) good ->
  let stk := als_iter v0 v1 vadd vmul (mk X) cs cc R iters dims (mkAls [] U0 (k_zeros_mttkrp X dims rank)) in
  let stb := als_sweep v0 v1 vadd vmul (mk X) cs cc R iters (removelast dims) stk in
  st_wf V R s stb -> n < length s -> good (st_U stb) n ->
  let st' := als_sweep v0 v1 vadd vmul (mk X) cs cc R iters dims stk in
  length (st_w st') = R -> nrows (nth n (st_U st') []) = nth n s 0 ->
  normX2 = normsq_den v0 vadd vmul s Xd ->
  nr = resid_den v0 vadd vmul vsub s Xd (den_k v0 v1 vadd vmul (st_model st')) /\
  fit = k_fit nr normX2 /\
  Mret = (if dofix then k_fixsigns else @id (ktensor V)) (k_arrange (st_model st')) /\
  iters < maxiters /\ initret = init.
Proof. exact (gen_silent_residual V v0 v1 vadd vmul vsub vopp Vring T_X R mk all_zero_mat zeros_like lapack norm2_cols normmax_cols
  all_zero_wt scale_cols c_leF c_zeroF k_init_factors k_restrict_dims k_zeros_mttkrp k_zeros_utu k_ktensor_init k_innerprod k_is_zero
  k_fit k_absdiff k_arrange k_fixsigns). Qed.
End C09eSilent.

Print Assumptions C09_gen_print_report.
Print Assumptions C09_gen_silent_residual.
Print Assumptions C09_gen_hsweep_saved.
Print Assumptions C09_gen_sweep_residual.
Print Assumptions C09_gen_zero_report.
Print Assumptions C09_gen_print_residual.

(* non-vacuity: the generated main over Z on a dense 2 x 2 holder (tensor.ttv's algorithm as ttv_of), rank-1 start, one printing
   iteration with pass-through sweep kernels: it returns, and the reported squared residual 72 is ||X - M||^2 of the returned model *)
Local Open Scope Z_scope.
Example C09_gen_print_example :
  let X := mkDense [2; 2]%nat [1; 2; 3; 4] in
  let init := mkK [1] [[[1]; [2]]; [[3]; [-1]]] in
  let r := GenCpAls.cp_als_main Z (@matrix Z) unit (list Z) (ktensor Z) (dense Z) Z.leb 0
      (fun K => kfactors K) (fun d _ => d) (fun _ _ _ => []) (fun _ _ => tt) (fun u _ _ => u) (fun U K => mkK (kweights K) U)
      (kq_innerprod Z 0 Z.add Z.mul (dense Z) (ttvall_dense Z 0 Z.add Z.mul)) (Z.eqb 0) (kq_resid0 Z 0 Z.add Z.mul Z.sub)
      (kq_resid Z 0 Z.add Z.mul Z.sub) (fun nr nx => nx - nr) (fun _ U n => nth n U []) (fun _ _ _ => []) (fun _ => false) (fun P => P)
      (fun _ P => P) (fun _ => [1]) (fun _ => [1]) (fun _ => false) (fun A _ => A) (fun U w => mkK w U) (fun _ _ _ _ => 0)
      (fun a b => Z.abs (a - b)) (fun K => K) (fun K => K)
      X init 30 2 1 [0; 1]%nat [0; 1]%nat 1 0 1%nat false in
  r = Some (init, init, (0%nat, 72, -42)) /\
  resid_den 0 Z.add Z.mul Z.sub [2; 2]%nat (den_dense 0 X) (den_k 0 1 Z.add Z.mul init) = 72 /\
  normsq_den 0 Z.add Z.mul [2; 2]%nat (den_dense 0 X) = 30.
Proof. vm_compute. repeat split; reflexivity. Qed.

(* non-vacuity of C09_gen_sweep_residual: one pass of the generated loop body over Z on a dense 2 x 2 holder with tensor.mttkrp's
   algorithm (mk_dense) as the mttkrp kernel, modes [1; 0], a "solve" that is NOT a solver (returns P + Y[0,0]) and unit scaling: the
   value computed from the saved MTTKRP is still ||X - M||^2 of the model the pass builds (the identity needs no LAPACK contract) *)
Example C09_gen_sweep_residual_example :
  let X := mkDense [2; 2]%nat [1; 2; 3; 4] in
  let U := [[[1]; [2]]; [[3]; [-1]]] in
  let r := h_sweep Z (@matrix Z) (list (@matrix Z)) (list Z) (ktensor Z) (dense Z) (g_set_gram Z)
      (fun X U n => mk_dense Z 0 Z.add Z.mul 1 X U n) (g_hadamard_others Z 0 1 Z.add Z.mul 1)
      (fun _ => false) (fun P => P) (fun Y P => map (map (Z.add (mget 0 Y 0%nat 0%nat))) P) (fun _ => [1]) (fun _ => [1]) (fun _ => false)
      (fun A _ => A) (kq_ktensor Z) (kq_iprod Z 0 Z.add Z.mul) 2 [1; 0]%nat X 1 ((U, [], U, None), None) in
  match snd r with
  | Some (M, ip) => kfactors M = [[[414]; [440]]; [[10]; [16]]] /\ ip = 60972 /\
                    kq_resid Z 0 Z.add Z.mul Z.sub 30 M ip = resid_den 0 Z.add Z.mul Z.sub [2; 2]%nat (den_dense 0 X) (den_k 0 1 Z.add Z.mul M)
  | None => False
  end.
Proof. vm_compute. repeat split; reflexivity. Qed.

(* non-vacuity of C09_gen_silent_residual: the generated main over Z, silent, two iterations (stoptol 0 never fires), dense 2 x 2 holder
   with tensor.mttkrp's algorithm, the same non-solver "solve" and unit scaling: it returns iters = 1 and the reported value is
   ||X - M||^2 of the returned model (arrange / fixsigns = identity here) *)
Example C09_gen_silent_example :
  let X := mkDense [2; 2]%nat [1; 2; 3; 4] in
  let init := mkK [1] [[[1]; [2]]; [[3]; [-1]]] in
  let r := GenCpAls.cp_als_main Z (@matrix Z) (list (@matrix Z)) (list Z) (ktensor Z) (dense Z) Z.leb 0
      (fun K => kfactors K) (fun d _ => d) (fun _ _ _ => []) (fun _ N => repeat [] N) (g_set_gram Z) (fun U K => mkK (kweights K) U)
      (fun _ _ => 0) (Z.eqb 0) (kq_resid0 Z 0 Z.add Z.mul Z.sub) (kq_resid Z 0 Z.add Z.mul Z.sub) (fun nr nx => nx - nr)
      (fun X U n => mk_dense Z 0 Z.add Z.mul 1 X U n) (g_hadamard_others Z 0 1 Z.add Z.mul 1)
      (fun _ => false) (fun P => P) (fun Y P => map (map (Z.add (mget 0 Y 0%nat 0%nat))) P) (fun _ => [1]) (fun _ => [1]) (fun _ => false)
      (fun A _ => A) (kq_ktensor Z) (kq_iprod Z 0 Z.add Z.mul) (fun a b => Z.abs (a - b)) (fun K => K) (fun K => K)
      X init 30 2 1 [1; 0]%nat [0; 1]%nat 2 0 0%nat false in
  match r with
  | Some (M, i, (iters, nr, fit)) =>
      iters = 1%nat /\ i = init /\ nr = resid_den 0 Z.add Z.mul Z.sub [2; 2]%nat (den_dense 0 X) (den_k 0 1 Z.add Z.mul M) /\ fit = 30 - nr
  | None => False
  end.
Proof. vm_compute. repeat split; reflexivity. Qed.
