(* Model/C04SpSetImpl.v — C04, wave 5: TRANSLITERATION of pyttb/sptensor.py  sptensor._set_subscripts  (S[subs] = vals, the
   "array of subscripts" write path; also reached by a linear key on a 1-way sptensor), line by line, in the numpy world of the
   translator (integer matrices `mat`, integer vectors `vec`, Np/NpZ.v primitives) and over the translator-GENERATED helper
   tt_ismember_rows (Gen/GenUtils.v, regenerated from /repo on every run).  Value type generic.

     newsubs = key ; tt_subscheck                               subscheck (hand: non-negative integer rows of one length)
     if newsubs.shape[1] < self.ndims: assert False              Err
     if newsubs.shape[1] > self.ndims: shape += [1]*g ;          order growth: stored subscripts get g zero columns
         subs = concatenate(subs, zeros) when subs.size > 0
     newvals: scalar -> [[v]] ; size 1 -> v * ones(newnnz) ;     set_newvals
         shape[0] != newnnz -> assert False
     newsubs, idx = np.unique(newsubs[::-1], axis=0,             np_unique_rows (rev key)
                              return_index=True)
     newvals = newvals[::-1][idx]                                np_take (rev newvals) idx
     _, tf = tt_ismember_rows(newsubs, self.subs)                GENERATED tt_ismember_rows
     exists = tf >= 0 ; nonzero = newvals != 0 ; idxa/idxb/idxc  map2 over the two boolean vectors
     A: self.vals[tf[idxa]] = newvals[idxa]                      np_scatter
     B: keepsubs = setdiff1d(range(nnz), tf[idxb]) ;             np_setdiff1d / np_take
        subs = subs[keepsubs] ; vals = vals[keepsubs]
     C: vstack((subs, newsubs[idxc])) ...                        ++ / np_mask
     resize: newshape[n] = max(dim, max(newsubs[:, n] + 1))      set_resize   (max() of an empty column raises: Err)

   Theorems (Proofs/C04SpSetImpl.v, Props/C04.v C04_set_subscripts_...): on every well-formed state the transliteration produces
   EXACTLY the raw state (shape, subscripts, values, stored order) of the executable sparse model step_sparse, hence (refine_sparse)
   the abstract array of the specification.  The correspondence check steps the transliteration from the raw state pyttb showed
   before the call and compares raw (Model/C04W5Harness.v). *)
From Coq Require Import List Arith ZArith Bool.
From PV Require Import Base.Index Np.Array Model.Sparse Np.NpZ Gen.GenUtils Model.C04Model.
Import ListNotations.

Definition zrow (i : idx) : vec := map Z.of_nat i.
Definition zrows (l : list idx) : mat := map zrow l.
Definition nrow (r : vec) : idx := map Z.to_nat r.
Definition nrows (l : mat) : list idx := map nrow l.

(* element-wise np.logical_and of two boolean vectors *)
Fixpoint bmap2 (f : bool -> bool -> bool) (a b : bvec) : bvec :=
  match a, b with x :: a', y :: b' => f x y :: bmap2 f a' b' | _, _ => [] end.

(* max(v) of a Python sequence: raises on an empty one *)
Definition zmax_list (l : vec) : res Z :=
  match l with [] => Err | x :: r => Ok (fold_left Z.max r x) end.

Fixpoint res_all {A} (l : list (res A)) : res (list A) :=
  match l with
  | [] => Ok []
  | Ok a :: r => bind (res_all r) (fun r' => Ok (a :: r'))
  | Err :: _ => Err
  end.

Section I.
Context {V : Type} (v0 : V) (isz : V -> bool).

(* the raw state of a sptensor as numpy holds it *)
Record zsp := mkZsp { zshape : vec; zsubs : mat; zvals : list V }.
Definition of_sparse (S : sparse V) : zsp := mkZsp (zrow (sshape S)) (zrows (ssubs S)) (svals S).
Definition to_sparse (R : zsp) : sparse V := mkSp (nrow (zshape R)) (nrows (zsubs R)) (zvals R).

(* tt_subscheck: a matrix of non-negative integers (rows of one length) *)
Definition subscheck (key : mat) : bool :=
  forallb (fun r => forallb (fun x => (0 <=? x)%Z) r && Nat.eqb (length r) (length (hd [] key))) key.

(* newvals as a column of newnnz values *)
Definition set_newvals (value : rhs V) (newnnz : nat) : res (list V) :=
  let newvals := match value with RScalar v => [v] | RValues l => l end in
  match newvals with
  | [v] => Ok (repeat v newnnz)                    (* newvals.size == 1: newvals * np.ones((newnnz, 1)) *)
  | _ => if Nat.eqb (length newvals) newnnz then Ok newvals else Err
  end.

(* groups A (change) / B (delete) / C (append) over the GENERATED tt_ismember_rows *)
Definition set_groups (subs : mat) (vals : list V) (newsubs : mat) (newvals : list V) : res (mat * list V) :=
  bind (tt_ismember_rows newsubs subs) (fun '(_, tf) =>
    let exists_ := map (fun t => (0 <=? t)%Z) tf in
    let nonzero := map (fun v => negb (isz v)) newvals in
    let idxa := bmap2 andb exists_ nonzero in
    let idxb := bmap2 andb exists_ (map negb nonzero) in
    let idxc := bmap2 andb (map negb exists_) nonzero in
    let vals1 := if np_any idxa then np_scatter vals (np_mask tf idxa) (np_mask newvals idxa) else vals in
    let '(subs2, vals2) :=
      if np_any idxb then
        let removesubs := np_mask tf idxb in
        let keepsubs := np_setdiff1d (np_arange 0 (zlen subs)) removesubs in
        (np_take [] subs keepsubs, np_take v0 vals1 keepsubs)
      else (subs, vals1) in
    if np_any idxc then Ok (subs2 ++ np_mask newsubs idxc, vals2 ++ np_mask newvals idxc)
    else Ok (subs2, vals2)).

(* for n, dim in enumerate(self.shape): newshape.append(max(dim, max(newsubs[:, n] + 1))) *)
Definition set_resize (shape : vec) (newsubs : mat) : res vec :=
  res_all (map (fun nd : nat * Z =>
                  bind (zmax_list (map (fun r => (nth (fst nd) r 0 + 1)%Z) newsubs)) (fun smax => Ok (Z.max (snd nd) smax)))
               (combine (seq 0 (length shape)) shape)).

Definition impl_set_subscripts (self : zsp) (key : mat) (value : rhs V) : res zsp :=
  if negb (subscheck key) then Err else
  let ncols := length (hd [] key) in
  let ndims := length (zshape self) in
  if Nat.ltb ncols ndims then Err else
  let grow_size := ncols - ndims in
  let shape1 := if Nat.ltb ndims ncols then zshape self ++ repeat 1%Z grow_size else zshape self in
  let subs1 := if Nat.ltb ndims ncols
               then match zsubs self with [] => [] | _ => map (fun r => r ++ repeat 0%Z grow_size) (zsubs self) end
               else zsubs self in
  let newnnz := length key in
  bind (set_newvals value newnnz) (fun newvals =>
  let u := np_unique_rows (rev key) in
  let newsubs := fst u in
  let idx := snd u in
  let newvals := np_take v0 (rev newvals) idx in
  bind (set_groups subs1 (zvals self) newsubs newvals) (fun '(subs', vals') =>
  bind (set_resize shape1 newsubs) (fun newshape =>
  Ok (mkZsp newshape subs' vals')))).

End I.

Arguments zsp V : clear implicits.
