(* Model/C09InnerExec.v — wave 5: Qc instances of the holders' innerprod / norm AS cp_als CALLS THEM (Proofs/C09Inner.v: iprod_k over
   the holder's own all-modes ttv, Gram / Hadamard form for a Kruskal part, part-by-part sum for a sum tensor; norm^2 of every
   holder class) and the boolean checker evaluated by the generated correspondence cases (tools/props/c09.py): pyttb's
   X.innerprod(M) and X.norm() — the very calls of cp_als's set-up, printing branch and maxiters = 0 branch, observed on the data
   object and the returned model — against the ALGORITHM models (not the spec).  Definitions only. *)
From Coq Require Import List Arith Bool ZArith QArith Qabs Qcanon.
From PV Require Import Base.Index Base.Sum Np.Array Model.Sparse Model.Repr Model.Harness Model.C02Spec Model.C02Dense Model.C02Sparse
  Model.C02SpMore Model.C02Kruskal Model.C02Tucker Model.C02TuckerFull Model.C09Als Model.C09Exec Proofs.C09Norm Proofs.C09Inner.
Import ListNotations.
Local Open Scope Qc_scope.

Definition qdense (T : dense Z) : dense Qc := mkDense (dshape T) (map z2q (ddata T)).
Definition qsparse (S : sparse Z) : sparse Qc := mkSp (sshape S) (ssubs S) (map z2q (svals S)).
Definition qzmx (A : @matrix Z) : qmx := map (map z2q) A.
Definition qtucker (T : ttensor Z) : ttensor Qc := mkT (qdense (tcore T)) (map qzmx (tfactors T)).
Definition qkruskal (K : ktensor Z) : ktensor Qc := mkK (map z2q (kweights K)) (map qzmx (kfactors K)).

(* a data holder other than a sum tensor (= an admissible part of a sum tensor) *)
Inductive part : Type :=
| PDense (T : dense Z)
| PSparse (S : sparse Z)
| PTucker (T : ttensor Z)
| PKruskal (K : ktensor Z).

(* part.innerprod(M), M a Kruskal tensor *)
Definition part_inner (p : part) (M : ktensor Qc) : Qc :=
  match p with
  | PDense T => iprod_k Qc q0 Qcplus Qcmult (ttvall_dense Qc q0 Qcplus Qcmult (qdense T)) M
  | PSparse Sp => iprod_k Qc q0 Qcplus Qcmult (ttvall_sparse Qc q0 q1 Qcplus Qcmult (qsparse Sp)) M
  | PTucker T => iprod_k Qc q0 Qcplus Qcmult (ttvall_tucker Qc q0 q1 Qcplus Qcmult (qtucker T)) M
  | PKruskal L => impl_innerprod_kk q0 Qcplus Qcmult (qkruskal L) M
  end.
(* part.norm()^2 *)
Definition part_normsq (p : part) : Qc :=
  match p with
  | PDense T => impl_normsq_dense q0 Qcplus Qcmult (qdense T)
  | PSparse Sp => impl_normsq_sp q0 Qcplus Qcmult (qsparse Sp)
  | PTucker T => impl_normsq_t q0 Qcplus Qcmult (qtucker T)
  | PKruskal L => impl_normsq_k q0 Qcplus Qcmult (qkruskal L)
  end.
Definition part_den (p : part) : idx -> Qc :=
  match p with
  | PDense T => xden_dense T
  | PSparse Sp => xden_sparse Sp
  | PTucker T => xden_tucker T
  | PKruskal L => xden_kruskal L
  end.

(* X.innerprod(M): one part = the holder itself; several parts = sumtensor.innerprod (sum over the parts) *)
Definition holder_inner (ps : list part) (M : ktensor Qc) : Qc := sum_over q0 Qcplus ps (fun p => part_inner p M).

(* pyttb's observed X.innerprod(M) (ip) and X.norm() (nrm; a sum tensor reports 0) against the algorithm models (observations of a
   run on 2^k-scaled data are mapped back by the generator: ip / 4^k with the model's weights / 2^k, nrm / 2^k).  chk_ip = the run is one
   in which cp_als itself calls innerprod (printing runs, maxiters = 0); the norm is called by every run (normX) *)
Definition holder_inner_ok (tol : Qc) (is_sum chk_ip : bool) (ps : list part) (M : ktensor Qc) (ip nrm : Qc) : bool :=
  let nx := sum_over q0 Qcplus ps part_normsq in
  let nm := knormsq_code Qc q0 Qcplus Qcmult M in
  (if chk_ip then qcl tol (qmax q1 (nx + nm)) ip (holder_inner ps M) else true) &&
  (if is_sum then Qc_eq_bool nrm q0
   else qleb q0 nrm && qcl tol (qmax q1 nx) (nrm * nrm) nx).
