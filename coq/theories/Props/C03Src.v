(* Props/C03Src.v — wave 3: sptensor._compare EXACTLY as written in the source (operator AND opposite_operator, the
   include_zero flag, the `subs.size > 0` guards) and __eq__ (scalar), over the row helpers generated from pyttb_utils.py.
   Only statements, `exact`, Print Assumptions.  `opposite_laws` = the "symmetry around zero" that the pair
   (operator, opposite_operator) must have; the four triples pyttb passes have it (C03_compare_triples), plain logical
   negation does not (C03_opposite_is_not_negation). *)
From Coq Require Import List Arith Bool ZArith.
From PV Require Import Base.Index Np.NpZ Np.Array Gen.GenUtils Model.Sparse Model.Harness Model.C03Ops Model.C03Gen Model.C03More
                       Model.C03Src Proofs.C03Src.
Import ListNotations.

Section C03Src.
Context {V : Type} (v0 : V) (isz : V -> bool).
Hypothesis isz_spec : forall v, isz v = true <-> v = v0.
Notation den := (den_sp v0).
Notation wf := (wf_sp isz).

(* S <op> c as written: a well-formed result that holds `one` exactly where the comparison holds, zeros included *)
Theorem C03_cmp_scalar_src : forall (one : V) (cmp opp : V -> V -> bool) (include_zero : bool),
  opposite_laws v0 cmp opp include_zero -> one <> v0 -> forall (A : sparse V) (c : V), wf A -> sshape A <> [] ->
  exists R, impl_cmp_scalar_src v0 one cmp opp A c = Ok R /\ wf R /\ sshape R = sshape A /\
            forall i, inb (sshape A) i = true -> den R i = bval v0 one (cmp (den A i) c).
Proof. exact (impl_cmp_scalar_src_correct v0 isz isz_spec). Qed.

(* S <op> S2 as written (four groups; groups 1 and 2 filtered with `not opposite_operator(.., 0)` / `not operator(.., 0)`) *)
Theorem C03_cmp_sparse_src : forall (one : V) (cmp opp : V -> V -> bool) (include_zero : bool),
  opposite_laws v0 cmp opp include_zero -> one <> v0 ->
  forall A B : sparse V, wf A -> wf B -> sshape B = sshape A -> sshape A <> [] ->
  exists R, impl_cmp_src v0 one cmp opp include_zero A B = Ok R /\ wf R /\ sshape R = sshape A /\
            forall i, inb (sshape A) i = true -> den R i = bval v0 one (cmp (den A i) (den B i)).
Proof. exact (impl_cmp_src_correct v0 isz isz_spec). Qed.

(* S <op> T (dense) as written: opposite_operator(T, 0).find() minus the stored subscripts, then the stored entries *)
Theorem C03_cmp_dense_src : forall (one : V) (cmp opp : V -> V -> bool) (include_zero : bool),
  opposite_laws v0 cmp opp include_zero -> one <> v0 -> forall (A : sparse V) (T : dense V), wf A -> sshape A <> [] ->
  exists R, impl_cmp_dense_src v0 one cmp opp A T = Ok R /\ wf R /\ sshape R = sshape A /\
            forall i, inb (sshape A) i = true -> den R i = bval v0 one (cmp (den A i) (den_dense v0 T i)).
Proof. exact (impl_cmp_dense_src_correct v0 isz isz_spec). Qed.

(* list for list: the code as written computes the closed forms of C03_cmp_scalar / C03_cmp_sparse / C03_cmp_dense *)
Theorem C03_cmp_sparse_src_eq : forall (one : V) (cmp opp : V -> V -> bool) (include_zero : bool),
  opposite_laws v0 cmp opp include_zero ->
  forall A B : sparse V, wf A -> wf B -> sshape B = sshape A -> sshape A <> [] ->
  impl_cmp_src v0 one cmp opp include_zero A B = Ok (impl_cmp v0 one cmp A B).
Proof. exact (impl_cmp_src_eq v0 isz isz_spec). Qed.

(* S == c as written: c == 0 goes through logical_not (generated tt_setdiff_rows) *)
Theorem C03_eq_scalar_src : forall (one : V) (veqb : V -> V -> bool) (A : sparse V) (c : V), wf_struct A -> sshape A <> [] ->
  impl_eq_scalar_src isz one veqb A c = Ok (impl_eq_scalar isz one veqb A c).
Proof. exact (impl_eq_scalar_src_eq isz). Qed.
End C03Src.

(* the triples of __le__ = _compare(other, le, ge, True), __lt__ = (lt, gt), __ge__ = (ge, le, True), __gt__ = (gt, lt) *)
Theorem C03_compare_triples :
  opposite_laws 0%Z zcmp_le zcmp_ge true /\ opposite_laws 0%Z zcmp_lt zcmp_gt false /\
  opposite_laws 0%Z zcmp_ge zcmp_le true /\ opposite_laws 0%Z zcmp_gt zcmp_lt false.
Proof. exact pyttb_compare_triples. Qed.

Theorem C03_opposite_is_not_negation : ~ opposite_laws 0%Z zcmp_lt zcmp_ge false.
Proof. exact opposite_is_not_negation. Qed.

(* S <= S2, S < S2, S >= S2, S > S2 exactly as called, on integer tensors of order >= 1, any stored orders *)
Theorem C03_compare_sparse_Z :
  compare_as_called zcmp_le zcmp_ge true /\ compare_as_called zcmp_lt zcmp_gt false /\
  compare_as_called zcmp_ge zcmp_le true /\ compare_as_called zcmp_gt zcmp_lt false.
Proof. exact pyttb_compare_sparse_Z. Qed.

(* a two-step history: (A + B) == c at every position, c = 0 marking the positions where the operands cancel *)
Theorem C03_add_then_eq_scalar : forall (V : Type) (v0 : V) (isz : V -> bool), (forall v, isz v = true <-> v = v0) ->
  forall (one : V) (vadd : V -> V -> V) (veqb : V -> V -> bool), one <> v0 ->
  (forall x, vadd v0 x = x) -> (forall x, vadd x v0 = x) -> (forall a b, veqb a b = true <-> a = b) ->
  forall (A B : sparse V) (c : V), wf_sp isz A -> wf_sp isz B -> sshape B = sshape A ->
  let R := impl_eq_scalar isz one veqb (impl_add v0 isz vadd A B) c in
  wf_sp isz R /\ sshape R = sshape A /\
  forall i, inb (sshape A) i = true -> den_sp v0 R i = bval v0 one (veqb (vadd (den_sp v0 A i) (den_sp v0 B i)) c).
Proof. exact @add_then_eq_scalar. Qed.

Print Assumptions C03_cmp_scalar_src.
Print Assumptions C03_cmp_sparse_src.
Print Assumptions C03_cmp_dense_src.
Print Assumptions C03_cmp_sparse_src_eq.
Print Assumptions C03_eq_scalar_src.
Print Assumptions C03_compare_triples.
Print Assumptions C03_opposite_is_not_negation.
Print Assumptions C03_compare_sparse_Z.
Print Assumptions C03_add_then_eq_scalar.
