(* Model/C11Pdnr.v — transliteration of get_search_dir_pdnr (pyttb/cp_apr.py), the damped-Newton direction of the PDNR row sub-problem,
   over Qc with EXACT arithmetic:
     * active set  (m_r <= min(epsActSet, ||m - projGradStep||)) and (g_r > 0)   [the same rule as PQNR: Model/C11Lbfgs.v fixed_vars;
       the Euclidean norm only enters through a comparison, decided on squares];  a fixed variable gets -g_r when m_r <> 0, else 0;
     * free variables: Hessian_free[i, j] = sum_k ups_k Pi[k, c_i] Pi[k, c_j]  (get_hessian), damped by mu on the diagonal; the linear system
       (Hessian_free + mu I) d = -g_free is solved by Gaussian elimination without pivoting (the matrix is positive definite for
       ups >= 0, mu > 0: every leading pivot is positive); a zero pivot is reported as None (numpy would raise LinAlgError / return garbage);
     * predicted reduction  d_free . g_free + 1/2 d_free^T (Hessian_free + mu I) d_free;  if it is positive the direction is -g. *)
From Coq Require Import List Arith Bool ZArith QArith Qabs Qcanon.
From PV Require Import Base.Index Base.Sum Np.Array Model.Sparse Model.Repr Model.Harness Model.C14Nvecs Model.C11Apr Model.C11Rows
                       Model.C11Check Model.C11Replay Model.C11Lbfgs.
Import ListNotations.
Local Open Scope Qc_scope.

(* A x = b, A given by rows; fuel = number of unknowns *)
Fixpoint gauss (fuel : nat) (A : list (list Qc)) (b : list Qc) : option (list Qc) :=
  match fuel with
  | O => Some []
  | S f =>
      match A, b with
      | (a11 :: r1) :: rest, b1 :: brest =>
          if qisz a11 then None
          else
            let rows := map (fun p : list Qc * Qc =>
                               match fst p with
                               | ai1 :: ri => (vaxpy (- (ai1 / a11)) r1 ri, snd p - (ai1 / a11) * b1)
                               | [] => ([], snd p)
                               end) (combine rest brest) in
            match gauss f (map fst rows) (map snd rows) with
            | Some xs => Some ((b1 - qdot r1 xs) / a11 :: xs)
            | None => None
            end
      | _, _ => None
      end
  end.

Definition free_of (fx : list bool) : list nat := filter (fun r => negb (nth r fx false)) (seq 0 (length fx)).
(* get_hessian *)
Definition hess (Pi : list (list Qc)) (ups : list Qc) (c d : nat) : Qc :=
  sum_over q0 Qcplus (combine ups Pi) (fun p => fst p * vget (snd p) c * vget (snd p) d).
Definition damped (mu : Qc) (Pi : list (list Qc)) (ups : list Qc) (free : list nat) : list (list Qc) :=
  map (fun c => map (fun d => hess Pi ups c d + (if Nat.eqb c d then mu else q0)) free) free.
(* scatter the solution into the full-length direction *)
Fixpoint scatter (free : list nat) (x : list Qc) (d : list Qc) : list Qc :=
  match free, x with
  | c :: free', xc :: x' => scatter free' x' (upd d c xc)
  | _, _ => d
  end.

Definition search_dir_pdnr (eps mu : Qc) (Pi : list (list Qc)) (ups m g : list Qc) : option (list Qc * Qc) :=
  let fx := fixed_vars eps m g in
  let free := free_of fx in
  let d0 := map (fun r => if nth r fx false then (if qisz (vget m r) then q0 else - vget g r) else q0) (seq 0 (length m)) in
  let A := damped mu Pi ups free in
  let gf := map (vget g) free in
  match gauss (length free) A (map Qcopp gf) with
  | None => None
  | Some x =>
      let pred := qdot x gf + Q2Qc (1 # 2) * qdot x (map (fun row => qdot row x) A) in
      Some (if qlt q0 pred then map Qcopp g else scatter free x d0, pred)
  end.

Definition search_dir_pdnr_ok (tol eps mu : Qc) (Pi : list (list Qc)) (ups m g : list Qc) (obs : list Qc) (pred_obs : Qc) : bool :=
  match search_dir_pdnr eps mu Pi ups m g with
  | None => false
  | Some (d, pred) => list_eqb (qclose tol) obs d && qclose tol pred_obs pred
  end.

(* non-vacuity: three variables, the third fixed at 0 (m_3 = 0 with positive gradient), a coupled 2 x 2 damped system for the free ones *)
Example search_dir_pdnr_ex :
  let z := fun (n : Z) => Q2Qc (inject_Z n) in
  search_dir_pdnr_ok q0 (Q2Qc (1 # 8)) (z 1%Z) [[z 1%Z; z 1%Z; z 2%Z]; [z 0%Z; z 1%Z; z 1%Z]] [z 2%Z; z 1%Z] [z 1%Z; z 2%Z; z 0%Z] [z (-3)%Z; z 2%Z; z 5%Z]
                     [z 2%Z; Q2Qc (-3 # 2); z 0%Z] (Q2Qc (-9 # 2)) = true /\
  search_dir_pdnr_ok q0 (Q2Qc (1 # 8)) (z 1%Z) [[z 1%Z; z 1%Z; z 2%Z]; [z 0%Z; z 1%Z; z 1%Z]] [z 2%Z; z 1%Z] [z 1%Z; z 2%Z; z 0%Z] [z (-3)%Z; z 2%Z; z 5%Z]
                     [z 2%Z; Q2Qc (-1 # 2); z 0%Z] (Q2Qc (-9 # 2)) = false.
Proof. vm_compute. split; reflexivity. Qed.
