(* Proofs/W4Reshape.v — bridge for sptensor.reshape of Gen/GenSptensor4d.v against Model/W4Reshape.v, and its laws:
   invalid mode numbers, negative sizes and a changed element count are rejected; the result keeps the values, its shape is
   shape[keep] ++ new_shape; a tensor that stores nothing gives the empty tensor of that shape. *)
From Coq Require Import List ZArith Bool Lia.
From PV Require Import Np.NpZ Np.NpZ2 Np.NpZ3 Np.NpZ3c Np.NpZ3d Np.NpZ3e Np.NpZ4 Np.NpZ4b Np.NpZ4e Gen.GenUtils Gen.GenSptensor4d
  Model.W4Reshape.
Import ListNotations.
Local Open Scope Z_scope.

Lemma any_lt_ge (l : vec) (n : Z) :
  np_any (np_lt_s l 0) || np_any (np_ge_s l n) = existsb (fun k => (k <? 0) || (k >=? n)) l.
Proof.
  unfold np_any, np_lt_s, np_ge_s. induction l as [|x l IH]; [reflexivity|]. cbn [map existsb]. rewrite <- IH.
  destruct (x <? 0), (x >=? n), (existsb (fun b : bool => b) (map (fun x0 : Z => x0 <? 0) l)); reflexivity.
Qed.

Lemma zlen_np_hstack (a b : mat) : zlen a = zlen b -> zlen (np_hstack a b) = zlen a.
Proof.
  unfold zlen. intros H. apply Nat2Z.inj in H. f_equal. revert b H.
  induction a as [|r a IH]; intros [|q b] H; cbn in *; try discriminate; [reflexivity|]. f_equal. apply IH. lia.
Qed.

Theorem sp_reshape_bridge (self : sptz) (new_shape : vec) (old_modes : option vec) :
  sptensor_reshape self new_shape old_modes = H_sp_reshape self new_shape old_modes.
Proof.
  unfold sptensor_reshape, H_sp_reshape, H_reshape_modes, spt_ndims, spt_make. cbv zeta.
  destruct old_modes as [old|].
  - rewrite any_lt_ge. destruct (existsb _ old); [reflexivity|]. cbn [bind fst snd].
    destruct (np_take_ok (spt_shape self) old); [|reflexivity]. cbn [andb].
    destruct (np_take_ok (spt_shape self) _); [|reflexivity].
    destruct (existsb _ new_shape); [reflexivity|]. destruct (negb (zprod _ =? _)); [reflexivity|].
    destruct (zlen new_shape =? 0); cbn [negb andb].
    + destruct (np_size2 (spt_subs self) =? 0); [reflexivity|].
      destruct (np_cols_ok (spt_subs self) old); [|reflexivity].
      destruct (tt_sub2ind _ _ _) as [inds|]; [|reflexivity]. cbn [bind].
      destruct (tt_ind2sub _ _ _) as [ns|]; [|reflexivity]. cbn [bind]. now rewrite !andb_false_r.
    + destruct (np_size2 (spt_subs self) =? 0); [reflexivity|].
      destruct (np_cols_ok (spt_subs self) old); [|reflexivity].
      destruct (tt_sub2ind _ _ _) as [inds|]; [|reflexivity]. cbn [bind].
      destruct (tt_ind2sub _ _ _) as [ns|]; [|reflexivity]. cbn [bind]. now rewrite !andb_true_r.
  - cbn [bind fst snd].
    destruct (np_take_ok (spt_shape self) (np_arange 0 (zlen (spt_shape self)))); [|reflexivity]. cbn [andb].
    change (np_take_ok (spt_shape self) []) with true. cbv iota.
    destruct (existsb _ new_shape); [reflexivity|]. destruct (negb (zprod _ =? _)); [reflexivity|].
    destruct (zlen new_shape =? 0); cbn [negb andb].
    + destruct (np_size2 (spt_subs self) =? 0); [reflexivity|].
      destruct (np_cols_ok (spt_subs self) _); [|reflexivity].
      destruct (tt_sub2ind _ _ _) as [inds|]; [|reflexivity]. cbn [bind].
      destruct (tt_ind2sub _ _ _) as [ns|]; [|reflexivity]. cbn [bind]. now rewrite !andb_false_r.
    + destruct (np_size2 (spt_subs self) =? 0); [reflexivity|].
      destruct (np_cols_ok (spt_subs self) _); [|reflexivity].
      destruct (tt_sub2ind _ _ _) as [inds|]; [|reflexivity]. cbn [bind].
      destruct (tt_ind2sub _ _ _) as [ns|]; [|reflexivity]. cbn [bind]. now rewrite !andb_true_r.
Qed.

(* a mode number outside [0, ndims) anywhere in old_modes: rejected (before /repo b27c529 a negative one wrapped around) *)
Theorem gen_sp_reshape_rejects_modes (self : sptz) (new_shape old : vec) (k : Z) :
  In k old -> k < 0 \/ zlen (spt_shape self) <= k -> sptensor_reshape self new_shape (Some old) = Err.
Proof.
  intros Hin Hk. rewrite sp_reshape_bridge. unfold H_sp_reshape, H_reshape_modes. cbv zeta.
  replace (existsb _ old) with true; [reflexivity|]. symmetry. apply existsb_exists. exists k. split; [exact Hin|].
  apply orb_true_iff. destruct Hk; [left; apply Z.ltb_lt; lia|right; apply Z.geb_le; lia].
Qed.

(* a negative size in new_shape: rejected, whatever the modes *)
Theorem gen_sp_reshape_rejects_negative (self : sptz) (new_shape : vec) (old_modes : option vec) (d : Z) :
  In d new_shape -> d < 0 -> sptensor_reshape self new_shape old_modes = Err.
Proof.
  intros Hin Hd. rewrite sp_reshape_bridge. unfold H_sp_reshape. cbv zeta.
  destruct (H_reshape_modes _ old_modes) as [[old keep]|]; [|reflexivity]. cbn [bind fst snd].
  destruct (_ && _); [|reflexivity].
  replace (existsb _ new_shape) with true; [reflexivity|]. symmetry. apply existsb_exists. exists d. split; [exact Hin|].
  apply Z.ltb_lt. exact Hd.
Qed.

(* what an accepted request returns: same values, shape = kept sizes then the new sizes, the element count of the reshaped
   modes unchanged, no negative size *)
Theorem gen_sp_reshape_result (self t : sptz) (new_shape : vec) (old_modes : option vec) :
  sptensor_reshape self new_shape old_modes = Ok t ->
  exists old keep, H_reshape_modes (zlen (spt_shape self)) old_modes = Ok (old, keep) /\
    spt_shape t = np_take 0 (spt_shape self) keep ++ new_shape /\
    zprod new_shape = zprod (np_take 0 (spt_shape self) old) /\
    (forall d, In d new_shape -> 0 <= d) /\ new_shape <> [] /\
    (np_size2 (spt_subs self) = 0 -> spt_subs t = [] /\ spt_vals t = []) /\
    (np_size2 (spt_subs self) <> 0 -> spt_vals t = spt_vals self /\ zlen (spt_subs t) = zlen (spt_subs self)
        /\ spt_make_ok (spt_subs t) (spt_vals t) (spt_shape t) = true).
Proof.
  rewrite sp_reshape_bridge. unfold H_sp_reshape. cbv zeta. intros E.
  destruct (H_reshape_modes _ old_modes) as [[old keep]|]; [|discriminate]. cbn [bind fst snd] in E.
  exists old, keep. split; [reflexivity|].
  destruct (_ && _); [|discriminate].
  destruct (existsb _ new_shape) eqn:Eneg; [discriminate|].
  destruct (zprod new_shape =? _) eqn:Ep; cbn [negb] in E; [|discriminate]. apply Z.eqb_eq in Ep.
  assert (Hnn : forall d, In d new_shape -> 0 <= d).
  { intros d Hd. destruct (Z.ltb_spec d 0) as [Hlt|Hge]; [|exact Hge]. exfalso.
    assert (X : existsb (fun d0 => d0 <? 0) new_shape = true) by (apply existsb_exists; exists d; split; [exact Hd|apply Z.ltb_lt; exact Hlt]).
    rewrite X in Eneg. discriminate. }
  destruct (Z.eqb_spec (zlen new_shape) 0) as [Hl|Hl]; [discriminate|].
  assert (Hne : new_shape <> []) by (intros ->; apply Hl; reflexivity).
  destruct (Z.eqb_spec (np_size2 (spt_subs self)) 0) as [Hz|Hz].
  - injection E as <-. cbn [spt_shape spt_subs spt_vals]. repeat split; auto; try contradiction.
  - destruct (np_cols_ok _ old); [|discriminate].
    destruct (tt_sub2ind _ _ _) as [inds|]; [|discriminate]. cbn [bind] in E.
    destruct (tt_ind2sub _ _ _) as [ns|]; [|discriminate]. cbn [bind] in E.
    destruct (np_cols_ok _ keep) eqn:Ek; [|discriminate]. cbn [andb] in E.
    destruct (np_hstack_ok _ ns) eqn:Eh; [|discriminate]. cbn [andb] in E.
    destruct (spt_make_ok _ _ _) eqn:Em; [|discriminate]. injection E as <-. cbn [spt_shape spt_subs spt_vals].
    split; [reflexivity|]. split; [exact Ep|]. split; [exact Hnn|]. split; [exact Hne|]. split; [intros Hc; contradiction|]. intros _.
    split; [reflexivity|]. split; [|exact Em].
    unfold np_hstack_ok in Eh. apply Z.eqb_eq in Eh.
    rewrite zlen_np_hstack by exact Eh. unfold np_cols, zlen. now rewrite map_length.
Qed.
