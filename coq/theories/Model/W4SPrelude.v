(* Model/W4SPrelude.v — the (small, fixed) vocabulary of the SKELETON translator tools/pyx2v_skel.py.
   Generated files Gen/GenSolver.v, Gen/GenHosvd.v, Gen/GenCpAls.v, ... import only this file.  Everything numeric is an
   opaque Section variable of the generated file; what is defined here is the list / slice / index vocabulary that the
   control flow itself uses (trace arrays, slices, `x[-1]`, `np.cumsum`, `np.where(a > t)[0]`).
   Python exceptions are modelled by `option`: every generated function returns `None` when the Python code raises. *)
From Coq Require Import List Arith Bool Lia.
Import ListNotations.

(* l[i] = v  (IndexError = None) *)
Definition sk_set {A} (l : list A) (i : nat) (v : A) : option (list A) :=
  if i <? length l then Some (firstn i l ++ v :: skipn (S i) l) else None.
(* l[a:b]  (numpy / list slices clip, never raise) *)
Definition sk_slice {A} (a b : nat) (l : list A) : list A := firstn (b - a) (skipn a l).
(* l[-1]  (IndexError = None) *)
Definition sk_last {A} (l : list A) : option A := match rev l with [] => None | x :: _ => Some x end.
(* np.cumsum *)
Fixpoint sk_cumsum_from {A} (add : A -> A -> A) (acc : A) (l : list A) : list A :=
  match l with [] => [] | x :: r => let a := add acc x in a :: sk_cumsum_from add a r end.
Definition sk_cumsum {A} (zero : A) (add : A -> A -> A) (l : list A) : list A := sk_cumsum_from add zero l.
(* np.where(l > t)[0]  — gtb x t  is  x > t *)
Fixpoint sk_where_from {A} (gtb : A -> A -> bool) (i : nat) (l : list A) (t : A) : list nat :=
  match l with
  | [] => []
  | x :: r => if gtb x t then i :: sk_where_from gtb (S i) r t else sk_where_from gtb (S i) r t
  end.
Definition sk_where {A} (gtb : A -> A -> bool) (l : list A) (t : A) : list nat := sk_where_from gtb 0 l t.
(* int + bool *)
Definition sk_b2n (b : bool) : nat := if b then 1 else 0.
(* `x in l` on ints *)
Definition sk_mem (x : nat) (l : list nat) : bool := existsb (Nat.eqb x) l.

