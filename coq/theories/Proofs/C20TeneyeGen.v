(* Proofs/C20TeneyeGen.v — teneye acts as the identity under symmetric multiplication, for EVERY even order m >= 2:
   ttsv(I, x) = ||x||^(m-2) x   (C20_teneye_identity_stmt).
   Route: the entry numerator teneye_count i counts the rearrangements of i whose pyttb-pairs are equal; a weighted
   sum over all subscripts is exchanged with the sum over rearrangements, each rearrangement is undone by
   re-indexing the subscript sum, and the sum over "consecutive pairs equal" factorises into dot products. *)
From Coq Require Import List Arith ZArith Bool QArith Qcanon Lia Ring Field Permutation.
From PV Require Import Base.Index Base.Sum Base.Perm Np.Array Model.Harness Model.C20Gen Model.C20Harness.
Import ListNotations.
Local Open Scope nat_scope.

(* ================================================================ lists, two elements at a time *)
Lemma list_pair_ind {A} (P : list A -> Prop) :
  P [] -> (forall a, P [a]) -> (forall a b r, P r -> P (a :: b :: r)) -> forall l, P l.
Proof.
  intros H0 H1 H2 l. assert (G : P l /\ forall a, P (a :: l)).
  { induction l as [|b l [IH1 IH2]]; split; auto. }
  apply G.
Qed.

Lemma div2_SS k : S (S k) / 2 = S (k / 2).
Proof. replace (S (S k)) with (k + 1 * 2) by lia. rewrite Nat.div_add by lia. lia. Qed.

Lemma forallb_ext_in {A} (f g : A -> bool) l : (forall x, In x l -> f x = g x) -> forallb f l = forallb g l.
Proof.
  induction l as [|a l IH]; intros H; [reflexivity|]. cbn [forallb].
  rewrite (H a) by (cbn; auto). f_equal. apply IH. intros x Hx. apply H. cbn; auto.
Qed.

Lemma forallb_map_comp {A B} (g : A -> B) (f : B -> bool) l : forallb f (map g l) = forallb (fun x => f (g x)) l.
Proof. induction l as [|a l IH]; [reflexivity|]. cbn [map forallb]. now rewrite IH. Qed.

(* ================================================================ subscripts of a hypercube *)
Lemma inb_repeat n m i : inb (repeat n m) i = true <-> length i = m /\ Forall (fun v => v < n) i.
Proof.
  revert i; induction m as [|m IH]; intros [|v i]; cbn [repeat inb length].
  - split; auto.
  - split; [discriminate|intros [H _]; discriminate].
  - split; [discriminate|intros [H _]; discriminate].
  - rewrite andb_true_iff, Nat.ltb_lt, IH. split.
    + intros [Hv [HL HF]]. split; [congruence|constructor; auto].
    + intros [HL HF]. inversion HF; subst. split; auto.
Qed.

Lemma pick_inb n m sigma i : is_perm sigma m -> inb (repeat n m) i = true -> inb (repeat n m) (pick 0 sigma i) = true.
Proof.
  intros Hs Hi. apply inb_repeat in Hi as [HL HF]. apply inb_repeat. split.
  - rewrite pick_length. eapply is_perm_length; eauto.
  - unfold pick. apply Forall_forall. intros v Hv. apply in_map_iff in Hv as (k & <- & Hk).
    rewrite Forall_forall in HF. apply HF. apply nth_In. rewrite HL. apply (is_perm_In sigma m k Hs). exact Hk.
Qed.

Lemma pick_Permutation {A} (d : A) sigma (l : list A) : is_perm sigma (length l) -> Permutation (pick d sigma l) l.
Proof.
  intros H. transitivity (pick d (seq 0 (length l)) l).
  - unfold pick. apply Permutation_map. exact H.
  - rewrite pick_seq. reflexivity.
Qed.

Lemma pick_is_perm q p m : is_perm q m -> is_perm p m -> is_perm (pick 0 q p) m.
Proof.
  intros Hq Hp. unfold is_perm. transitivity p; [|exact Hp].
  apply pick_Permutation. now rewrite (is_perm_length p m Hp).
Qed.

Lemma allsubs_pick_perm n m sigma : is_perm sigma m ->
  Permutation (map (pick 0 sigma) (allsubs (repeat n m))) (allsubs (repeat n m)).
Proof.
  intros Hs. apply NoDup_Permutation_bis.
  - assert (G : forall l, NoDup l -> (forall i, In i l -> length i = m) -> NoDup (map (pick 0 sigma) l)).
    { induction l as [|i l IH]; intros Hn HL; cbn [map]; constructor.
      - inversion Hn as [|? ? Hi _]; subst. rewrite in_map_iff. intros (j & E & Hj).
        assert (Eij : i = j).
        { rewrite <- (pick_invperm_pick 0 sigma m i), <- (pick_invperm_pick 0 sigma m j); auto using in_cons, in_eq.
          now rewrite E. }
        subst; contradiction.
      - inversion Hn; subst. apply IH; auto. intros; apply HL; cbn; auto. }
    apply G; [apply allsubs_NoDup|]. intros i Hi. apply in_allsubs, inb_repeat in Hi. tauto.
  - rewrite map_length. lia.
  - intros i Hi. apply in_map_iff in Hi as (j & <- & Hj). apply in_allsubs. apply pick_inb; auto. now apply in_allsubs.
Qed.

Lemma ind2sub_cons d s v k : v < d -> ind2sub (d :: s) (v + d * k) = v :: ind2sub s k.
Proof.
  intros H. cbn [ind2sub]. replace (v + d * k) with (v + k * d) by lia.
  rewrite Nat.mod_add, Nat.div_add by lia. rewrite Nat.mod_small, Nat.div_small by lia. reflexivity.
Qed.

(* ================================================================ the rearrangement enumeration [perms] *)
Lemma insert_all_map (f : nat -> nat) x l : insert_all (f x) (map f l) = map (map f) (insert_all x l).
Proof. induction l as [|y r IH]; cbn; [reflexivity|]. f_equal. rewrite IH, !map_map. reflexivity. Qed.

Lemma perms_map (f : nat -> nat) l : perms (map f l) = map (map f) (perms l).
Proof.
  induction l as [|x r IH]; [reflexivity|]. cbn [map perms]. rewrite IH.
  rewrite !flat_map_concat_map, concat_map, !map_map. f_equal. apply map_ext. intros p. apply insert_all_map.
Qed.

Lemma perms_pick i : perms i = map (fun sigma => pick 0 sigma i) (perms (seq 0 (length i))).
Proof.
  transitivity (perms (pick 0 (seq 0 (length i)) i)); [now rewrite pick_seq|].
  unfold pick at 1. exact (perms_map _ _).
Qed.

Lemma insert_all_perm x p s : In s (insert_all x p) -> Permutation s (x :: p).
Proof.
  revert s; induction p as [|y r IH]; intros s H; cbn in H.
  - destruct H as [<-|[]]. reflexivity.
  - destruct H as [<-|H]; [reflexivity|]. apply in_map_iff in H as (s' & <- & Hs').
    rewrite (IH _ Hs'). apply perm_swap.
Qed.

Lemma perms_perm l s : In s (perms l) -> Permutation s l.
Proof.
  revert s; induction l as [|x r IH]; intros s H; cbn in H.
  - destruct H as [<-|[]]. reflexivity.
  - apply in_flat_map in H as (p & Hp & Hs). apply insert_all_perm in Hs. rewrite Hs. constructor. auto.
Qed.

Lemma insert_all_length x p : length (insert_all x p) = S (length p).
Proof. induction p as [|y r IH]; cbn; [reflexivity|]. now rewrite map_length, IH. Qed.

Lemma flat_map_length_const {A B} (g : A -> list B) c L :
  (forall p, In p L -> length (g p) = c) -> length (flat_map g L) = c * length L.
Proof.
  induction L as [|p L IH]; intros H; cbn [flat_map length]; [lia|].
  rewrite app_length, (H p) by (cbn; auto). rewrite IH by (intros q Hq; apply H; cbn; auto). lia.
Qed.

Lemma perms_length l : length (perms l) = fact (length l).
Proof.
  induction l as [|x r IH]; [reflexivity|]. cbn [perms length].
  change (fact (S (length r))) with (S (length r) * fact (length r)).
  rewrite (flat_map_length_const _ (S (length r))).
  - now rewrite IH.
  - intros p Hp. rewrite insert_all_length. f_equal. apply Permutation_length, perms_perm; auto.
Qed.

Lemma perms_is_perm m sigma : In sigma (perms (seq 0 m)) -> is_perm sigma m.
Proof. apply perms_perm. Qed.

(* ================================================================ pyttb's pairing is a rotation of the consecutive pairing *)
Fixpoint cmatch (l : list nat) : bool :=
  match l with
  | [] => true
  | [_] => false
  | a :: b :: r => (a =? b) && cmatch r
  end.

Definition rho (m : nat) : list nat := (m - 1) :: seq 0 (m - 1).

Lemma rho_length m : 1 <= m -> length (rho m) = m.
Proof. intros H. unfold rho. cbn [length]. rewrite seq_length. lia. Qed.

Lemma rho_is_perm m : 1 <= m -> is_perm (rho m) m.
Proof.
  intros H. destruct m as [|k]; [lia|]. unfold is_perm, rho. replace (S k - 1) with k by lia.
  rewrite seq_S. cbn [Nat.add]. apply Permutation_cons_append.
Qed.

Lemma nth_rho m k : k < m -> nth k (rho m) 0 = if k =? 0 then m - 1 else k - 1.
Proof.
  intros H. unfold rho. destruct k as [|k]; [reflexivity|]. cbn [nth Nat.eqb].
  rewrite seq_nth by lia. lia.
Qed.

Lemma cmatch_forallb l : Nat.even (length l) = true ->
  cmatch l = forallb (fun j => nth (2 * j) l 0 =? nth (2 * j + 1) l 0) (seq 0 (length l / 2)).
Proof.
  induction l as [| a | a b r IH] using list_pair_ind; intros He.
  - reflexivity.
  - discriminate.
  - cbn [length] in *. rewrite div2_SS. cbn [seq forallb cmatch]. f_equal.
    rewrite <- seq_shift, forallb_map_comp. rewrite IH by exact He. apply forallb_ext_in. intros j _.
    replace (2 * S j) with (S (S (2 * j))) by lia. replace (S (S (2 * j)) + 1) with (S (S (2 * j + 1))) by lia.
    reflexivity.
Qed.

Lemma pairs_match_rot p : 2 <= length p -> Nat.even (length p) = true ->
  pairs_match p = cmatch (pick 0 (rho (length p)) p).
Proof.
  intros Hm He. set (m := length p) in *.
  assert (HL : length (pick 0 (rho m) p) = m) by (rewrite pick_length; apply rho_length; lia).
  rewrite cmatch_forallb by (now rewrite HL). rewrite HL.
  unfold pairs_match. cbv zeta. fold m. apply forallb_ext_in. intros j Hj. apply in_seq in Hj.
  pose proof (Nat.mul_div_le m 2 ltac:(lia)) as Hle.
  rewrite !nth_pick by (rewrite rho_length; lia). rewrite !nth_rho by lia.
  assert (E1 : (2 * j + m - 1) mod m = if 2 * j =? 0 then m - 1 else 2 * j - 1).
  { destruct j as [|j].
    - cbn [Nat.mul Nat.add Nat.eqb]. apply Nat.mod_small. lia.
    - replace (2 * S j + m - 1) with ((2 * S j - 1) + 1 * m) by lia. rewrite Nat.mod_add by lia.
      rewrite Nat.mod_small by lia. destruct (Nat.eqb_spec (2 * S j) 0); [lia|reflexivity]. }
  assert (E2 : (if 2 * j + 1 =? 0 then m - 1 else 2 * j + 1 - 1) = 2 * j).
  { destruct (Nat.eqb_spec (2 * j + 1) 0); lia. }
  rewrite E1, E2. reflexivity.
Qed.

Lemma pairs_match_pick m sigma i : 2 <= m -> Nat.even m = true -> is_perm sigma m ->
  pairs_match (pick 0 sigma i) = cmatch (pick 0 (pick 0 (rho m) sigma) i).
Proof.
  intros Hm He Hs. pose proof (is_perm_length _ _ Hs) as HL.
  rewrite pairs_match_rot; rewrite pick_length, HL; auto.
  f_equal. apply pick_pick. intros k Hk. rewrite HL. apply (is_perm_In (rho m) m k); auto. apply rho_is_perm. lia.
Qed.

(* ================================================================ weighted sums over subscripts, any commutative ring *)
Section Gen.
Variable V : Type.
Variables (v0 v1 : V) (vadd vmul vsub : V -> V -> V) (vopp : V -> V).
Hypothesis Vring : ring_theory v0 v1 vadd vmul vsub vopp (@eq V).
Add Ring VrTeneye : Vring.

Local Notation "x +! y" := (vadd x y) (at level 50, left associativity).
Local Notation "x *! y" := (vmul x y) (at level 40, left associativity).
Local Notation so := (sum_over v0 vadd).
Local Notation sn := (sum_n v0 vadd).
Local Notation pv := (prodv v1 vmul).
Local Notation SL lem := (lem V v0 v1 vadd vmul vsub vopp Vring).

Definition vind (b : bool) : V := if b then v1 else v0.
Fixpoint ofnat (k : nat) : V := match k with O => v0 | S k' => v1 +! ofnat k' end.
Fixpoint vpow (b : V) (k : nat) : V := match k with O => v1 | S k' => b *! vpow b k' end.
(* W Y i = prod_k Y_k (i_k) *)
Definition W (Y : list (nat -> V)) (i : list nat) : V := pv (map (fun p => fst p (snd p)) (combine Y i)).
Definition dot (n : nat) (y z : nat -> V) : V := sn n (fun k => y k *! z k).
Fixpoint pairdots (n : nat) (Y : list (nat -> V)) : V :=
  match Y with
  | [] => v1
  | [_] => v0
  | y :: z :: r => dot n y z *! pairdots n r
  end.
Definition unit_at (a : nat) : nat -> V := fun k => if k =? a then v1 else v0.

Lemma prodv_perm l l' : Permutation l l' -> pv l = pv l'.
Proof.
  induction 1 as [|a l l' _ IH|a b l|l l' l'' _ IH1 _ IH2]; cbn [prodv]; auto.
  - now rewrite IH.
  - ring.
  - congruence.
Qed.

Lemma ofnat_count {A} (P : A -> bool) l : ofnat (length (filter P l)) = so l (fun p => vind (P p)).
Proof.
  induction l as [|a l IH]; [reflexivity|]. cbn [filter]. rewrite sum_over_cons, <- IH.
  destruct (P a); cbn [length ofnat vind]; ring.
Qed.

Lemma sum_const {A} (l : list A) c : so l (fun _ => c) = ofnat (length l) *! c.
Proof.
  induction l as [|a l IH]; [cbn; ring|]. rewrite sum_over_cons, IH. cbn [length ofnat]. ring.
Qed.

Lemma W_cons y Y a i : W (y :: Y) (a :: i) = y a *! W Y i.
Proof. reflexivity. Qed.

Lemma combine_map2 {A B C} (f : A -> B) (g : A -> C) l : combine (map f l) (map g l) = map (fun k => (f k, g k)) l.
Proof. induction l as [|a l IH]; [reflexivity|]. cbn. now rewrite IH. Qed.

(* W is invariant under a simultaneous rearrangement of the weights and of the subscript *)
Lemma W_pick m tau dY Y i : is_perm tau m -> length Y = m -> length i = m ->
  W (pick dY tau Y) (pick 0 tau i) = W Y i.
Proof.
  intros Ht HY Hi. unfold W. apply prodv_perm. apply Permutation_map.
  unfold pick. rewrite combine_map2.
  rewrite (map_ext _ (fun k => nth k (combine Y i) (dY, 0))) by (intros k; rewrite combine_nth by lia; reflexivity).
  apply (pick_Permutation (dY, 0)). rewrite combine_length, HY, Hi, Nat.min_id. exact Ht.
Qed.

(* a sum over the subscripts of (d :: s) is a nested sum *)
Lemma sum_allsubs_cons d s (f : idx -> V) :
  so (allsubs (d :: s)) f = so (allsubs s) (fun j => sn d (fun v => f (v :: j))).
Proof.
  unfold allsubs. rewrite !sum_over_map. rewrite size_cons.
  change (so (seq 0 (d * size s)) (fun a => f (ind2sub (d :: s) a)))
    with (sn (d * size s) (fun a => f (ind2sub (d :: s) a))).
  rewrite (SL sum_n_mul). apply sum_n_ext. intros k _. apply sum_n_ext. intros v Hv. now rewrite ind2sub_cons.
Qed.

(* L1: re-indexing the subscripts of a hypercube by a rearrangement of the modes *)
Lemma sum_reindex n m sigma (f : idx -> V) : is_perm sigma m ->
  so (allsubs (repeat n m)) (fun i => f (pick 0 sigma i)) = so (allsubs (repeat n m)) f.
Proof.
  intros H. transitivity (so (map (pick 0 sigma) (allsubs (repeat n m))) f); [symmetry; apply sum_over_map|].
  apply (SL sum_over_perm). now apply allsubs_pick_perm.
Qed.

(* L2: "consecutive pairs equal" factorises the weighted sum into dot products *)
Lemma sum_cmatch n Y :
  so (allsubs (repeat n (length Y))) (fun i => vind (cmatch i) *! W Y i) = pairdots n Y.
Proof.
  induction Y as [|y|y z r IH] using list_pair_ind.
  - cbn. ring.
  - cbn [length repeat]. rewrite sum_allsubs_cons. cbn [pairdots].
    apply (SL sum_over_zero). intros j Hj. apply (SL sum_over_zero). intros v _.
    apply in_allsubs in Hj. destruct j; [|discriminate]. cbn [cmatch vind]. ring.
  - cbn [length repeat]. rewrite !sum_allsubs_cons. cbn [pairdots]. rewrite <- IH.
    rewrite <- (SL sum_over_scale_l). apply sum_over_ext. intros j _.
    unfold dot, sum_n. rewrite <- (SL sum_over_scale_r). apply sum_over_ext. intros w Hw.
    rewrite (SL sum_over_single _ w).
    + cbn [cmatch]. rewrite Nat.eqb_refl, !W_cons. cbn [andb]. ring.
    + apply seq_NoDup.
    + exact Hw.
    + intros v _ Hne. cbn [cmatch]. destruct (Nat.eqb_spec v w); [contradiction|]. cbn [andb vind]. ring.
Qed.

(* the reduction lemma: the count-weighted sum over subscripts is a sum over rearrangements of products of dots *)
Lemma teneye_count_sum n m (dY : nat -> V) Y : Nat.even m = true -> 2 <= m -> length Y = m ->
  so (allsubs (repeat n m)) (fun i => ofnat (teneye_count i) *! W Y i) =
  so (perms (seq 0 m)) (fun sigma => pairdots n (pick dY (pick 0 (rho m) sigma) Y)).
Proof.
  intros He Hm HY.
  transitivity (so (allsubs (repeat n m)) (fun i => so (perms (seq 0 m))
                  (fun sigma => vind (cmatch (pick 0 (pick 0 (rho m) sigma) i)) *! W Y i))).
  { apply sum_over_ext. intros i Hi. apply in_allsubs, inb_repeat in Hi as [HL _].
    unfold teneye_count. rewrite ofnat_count, <- (SL sum_over_scale_r).
    rewrite perms_pick, HL, sum_over_map. apply sum_over_ext. intros sigma Hs.
    rewrite (pairs_match_pick m) by auto using perms_is_perm. reflexivity. }
  rewrite (SL sum_over_swap). apply sum_over_ext. intros sigma Hs. apply perms_is_perm in Hs.
  assert (Ht : is_perm (pick 0 (rho m) sigma) m) by (apply pick_is_perm; auto; apply rho_is_perm; lia).
  set (tau := pick 0 (rho m) sigma) in *.
  transitivity (so (allsubs (repeat n m))
                  (fun i => (fun i' => vind (cmatch i') *! W (pick dY tau Y) i') (pick 0 tau i))).
  { apply sum_over_ext. intros i Hi. apply in_allsubs, inb_repeat in Hi as [HL _]. cbv beta.
    now rewrite (W_pick m). }
  etransitivity; [apply (sum_reindex n m tau (fun i' => vind (cmatch i') *! W (pick dY tau Y) i') Ht)|].
  rewrite <- (sum_cmatch n (pick dY tau Y)). rewrite pick_length, (is_perm_length tau m Ht). reflexivity.
Qed.

(* ---- the weights of ttsv: a unit vector in mode 0, the same vector y in all other modes ---- *)
Lemma dot_unit_l n a y : a < n -> dot n (unit_at a) y = y a.
Proof.
  intros H. unfold dot, sum_n. rewrite (SL sum_over_single _ a).
  - unfold unit_at. rewrite Nat.eqb_refl. ring.
  - apply seq_NoDup.
  - apply in_seq; lia.
  - intros k _ Hne. unfold unit_at. destruct (Nat.eqb_spec k a); [contradiction|]. ring.
Qed.

Lemma dot_unit_r n a y : a < n -> dot n y (unit_at a) = y a.
Proof.
  intros H. unfold dot, sum_n. rewrite (SL sum_over_single _ a).
  - unfold unit_at. rewrite Nat.eqb_refl. ring.
  - apply seq_NoDup.
  - apply in_seq; lia.
  - intros k _ Hne. unfold unit_at. destruct (Nat.eqb_spec k a); [contradiction|]. ring.
Qed.

Lemma existsb_zero_false r : ~ In 0 r -> existsb (fun j => j =? 0) r = false.
Proof.
  intros H. destruct (existsb (fun j => j =? 0) r) eqn:E; auto.
  apply existsb_exists in E as (z & Hz & Ez). apply Nat.eqb_eq in Ez. subst. exfalso. apply H. exact Hz.
Qed.

(* positions t (no repetition, even length): the position 0 carries the unit vector, all others carry y *)
Lemma pairdots_special n a y t : a < n -> Nat.even (length t) = true -> NoDup t ->
  pairdots n (map (fun k => if k =? 0 then unit_at a else y) t) =
  if existsb (fun k => k =? 0) t then y a *! vpow (dot n y y) (length t / 2 - 1) else vpow (dot n y y) (length t / 2).
Proof.
  intros Ha. induction t as [|k|k1 k2 r IH] using list_pair_ind; intros He Hn.
  - reflexivity.
  - discriminate.
  - cbn [length] in *. rewrite div2_SS. cbn [map pairdots existsb].
    inversion Hn as [|? ? Hk1 Hn1]; subst. inversion Hn1 as [|? ? Hk2 Hn2]; subst.
    specialize (IH He Hn2).
    replace (S (length r / 2) - 1) with (length r / 2) by lia.
    destruct (Nat.eqb_spec k1 0) as [->|N1]; [|destruct (Nat.eqb_spec k2 0) as [->|N2]].
    + destruct (Nat.eqb_spec k2 0) as [->|N2]; [exfalso; apply Hk1; cbn; auto|].
      cbn [orb]. rewrite dot_unit_l by auto.
      rewrite (existsb_zero_false r) in IH by (intros E; apply Hk1; cbn; auto).
      rewrite IH. reflexivity.
    + cbn [orb]. rewrite dot_unit_r by auto.
      rewrite (existsb_zero_false r) in IH by exact Hk2.
      rewrite IH. reflexivity.
    + cbn [orb]. rewrite IH. destruct (existsb (fun k => k =? 0) r) eqn:E.
      * destruct r as [|r1 [|r2 r']]; [discriminate E|discriminate He|].
        cbn [length]. rewrite div2_SS. replace (S (length r' / 2) - 1) with (length r' / 2) by lia.
        cbn [vpow]. ring.
      * reflexivity.
Qed.

(* all m! rearrangements contribute the same product *)
Lemma teneye_sum_identity n m a (y : nat -> V) : Nat.even m = true -> 2 <= m -> a < n ->
  so (allsubs (repeat n (m - 1))) (fun j => ofnat (teneye_count (a :: j)) *! W (repeat y (m - 1)) j) =
  ofnat (fact m) *! (y a *! vpow (dot n y y) (m / 2 - 1)).
Proof.
  intros He Hm Ha. destruct m as [|m']; [lia|]. replace (S m' - 1) with m' by lia.
  pose proof (teneye_count_sum n (S m') y (unit_at a :: repeat y m') He Hm) as R.
  specialize (R ltac:(cbn [length]; now rewrite repeat_length)).
  cbn [repeat] in R. rewrite sum_allsubs_cons in R.
  etransitivity; [|etransitivity; [exact R|]].
  - apply sum_over_ext. intros j _. symmetry. unfold sum_n. rewrite (SL sum_over_single _ a).
    + rewrite W_cons. unfold unit_at. rewrite Nat.eqb_refl. ring.
    + apply seq_NoDup.
    + apply in_seq; lia.
    + intros v _ Hne. rewrite W_cons. unfold unit_at. destruct (Nat.eqb_spec v a); [contradiction|]. ring.
  - assert (EL : length (perms (seq 0 (S m'))) = fact (S m')) by (now rewrite perms_length, seq_length).
    rewrite <- EL, <- sum_const. apply sum_over_ext. intros sigma Hs. apply perms_is_perm in Hs.
    assert (Ht : is_perm (pick 0 (rho (S m')) sigma) (S m')) by (apply pick_is_perm; auto; apply rho_is_perm; lia).
    set (tau := pick 0 (rho (S m')) sigma) in *.
    assert (EY : pick y tau (unit_at a :: repeat y m') = map (fun k => if k =? 0 then unit_at a else y) tau).
    { unfold pick. apply map_ext. intros k. destruct k as [|k]; [reflexivity|]. cbn [nth Nat.eqb]. apply nth_repeat. }
    rewrite EY, pairdots_special; auto.
    + rewrite (is_perm_length tau (S m') Ht).
      assert (E0 : existsb (fun k => k =? 0) tau = true).
      { apply existsb_exists. exists 0. split; [apply (is_perm_In tau (S m') 0 Ht); lia|reflexivity]. }
      rewrite E0. reflexivity.
    + now rewrite (is_perm_length tau (S m') Ht).
    + eapply is_perm_NoDup; eauto.
Qed.

End Gen.

(* ================================================================ the Qc instance: ttsv(I, x) = ||x||^(m-2) x *)
Lemma ofnat_Qc k : Q2Qc (Z.of_nat k # 1) = ofnat Qc q0 q1 Qcplus k.
Proof.
  induction k as [|k IH]; [reflexivity|]. cbn [ofnat]. rewrite <- IH.
  unfold Qcplus, q1. apply Q2Qc_eq_iff. cbn [this Q2Qc]. rewrite !Qred_correct.
  rewrite Nat2Z.inj_succ. unfold Qeq, Qplus. cbn [Qnum Qden]. lia.
Qed.

Lemma fact_q_ofnat m : fact_q m = ofnat Qc q0 q1 Qcplus (fact m).
Proof. apply ofnat_Qc. Qed.

Lemma fact_q_nz m : fact_q m <> q0.
Proof.
  unfold fact_q, q0. intro H. apply Q2Qc_eq_iff in H. unfold Qeq in H. cbn in H.
  pose proof (lt_O_fact m). lia.
Qed.

Lemma qprodx_W x j : qprodx x j = W Qc q1 Qcmult (repeat (fun k => nth k x q0) (length j)) j.
Proof.
  induction j as [|v j IH]; [reflexivity|]. cbn [length repeat]. rewrite W_cons, <- IH. reflexivity.
Qed.

Lemma qdot_dot x : qdot x = dot Qc q0 Qcplus Qcmult (length x) (fun k => nth k x q0) (fun k => nth k x q0).
Proof.
  induction x as [|v x IH]; [reflexivity|]. unfold qdot. cbn [map fold_right]. fold (qdot x). rewrite IH.
  unfold dot, sum_n. cbn [length seq]. rewrite sum_over_cons. cbn [nth]. f_equal.
  rewrite (sum_over_seq_shift Qc q0 Qcplus 1). reflexivity.
Qed.

Lemma qpow_vpow b k : qpow b k = vpow Qc q1 Qcmult b k.
Proof. induction k as [|k IH]; [reflexivity|]. cbn [qpow vpow]. now rewrite IH. Qed.

Theorem teneye_identity_all : forall (m n : nat) (x : list Qc), Nat.even m = true -> 2 <= m -> length x = n ->
  forall a, a < n ->
  ttsv1 (tabulate (repeat n m) (teneye_entry m)) m n x a = (qpow (qdot x) (m / 2 - 1) * nth a x q0)%Qc.
Proof.
  intros m n x He Hm HL a Ha. unfold ttsv1.
  change (fold_right Qcplus q0 (map ?f ?l)) with (sum_over q0 Qcplus l f).
  set (xf := fun k => nth k x q0).
  transitivity (sum_over q0 Qcplus (allsubs (repeat n (m - 1)))
                  (fun j => (/ fact_q m * (ofnat Qc q0 q1 Qcplus (teneye_count (a :: j)) *
                                           W Qc q1 Qcmult (repeat xf (m - 1)) j))%Qc)).
  { apply sum_over_ext. intros j Hj. apply in_allsubs in Hj. pose proof Hj as Hj'.
    apply inb_repeat in Hj' as [HLj _]. unfold qden. rewrite den_tabulate.
    - unfold teneye_entry. rewrite ofnat_Qc, qprodx_W, HLj. unfold Qcdiv. fold xf. ring.
    - destruct m as [|m']; [lia|]. cbn [repeat inb]. replace (S m' - 1) with m' in Hj by lia.
      rewrite Hj, andb_true_r. apply Nat.ltb_lt; lia. }
  rewrite (sum_over_scale_l Qc q0 q1 Qcplus Qcmult Qcminus Qcopp Qcrt).
  rewrite (teneye_sum_identity Qc q0 q1 Qcplus Qcmult Qcminus Qcopp Qcrt n m a xf He Hm Ha).
  rewrite <- (fact_q_ofnat m), qdot_dot, HL. fold xf.
  change (qpow ?b ?k) with (vpow Qc q1 Qcmult b k).
  rewrite Qcmult_assoc, Qcmult_inv_l by apply fact_q_nz. change (xf a) with (nth a x q0). ring.
Qed.

(* ---- order 4 ---- *)
Corollary teneye_identity_order4 : forall (n : nat) (x : list Qc) (a : nat), length x = n -> a < n ->
  ttsv1 (tabulate (repeat n 4) (teneye_entry 4)) 4 n x a = (qpow (qdot x) (4 / 2 - 1) * nth a x q0)%Qc.
Proof. intros n x a HL Ha. apply teneye_identity_all; auto. Qed.

(* non-vacuity: a concrete non-symmetric vector, both sides computed *)
Example teneye_identity_example :
  let x := [Q2Qc (1 # 2); Q2Qc (-3 # 1)] in
  ttsv1 (tabulate (repeat 2 4) (teneye_entry 4)) 4 2 x 0 = Q2Qc (37 # 8) /\
  ttsv1 (tabulate (repeat 2 4) (teneye_entry 4)) 4 2 x 1 = Q2Qc (-111 # 4) /\
  (qpow (qdot x) (4 / 2 - 1) * nth 0 x q0)%Qc = Q2Qc (37 # 8) /\
  (qpow (qdot x) (4 / 2 - 1) * nth 1 x q0)%Qc = Q2Qc (-111 # 4).
Proof. repeat split; apply Qc_is_canon; vm_compute; reflexivity. Qed.

Lemma length_filter_sum {A} (P : A -> bool) l :
  length (filter P l) = fold_right (fun p acc => (if P p then 1 else 0) + acc) 0 l.
Proof.
  induction l as [|a l IH]; [reflexivity|]. cbn [filter fold_right].
  destruct (P a); cbn [length]; rewrite IH; reflexivity.
Qed.

(* the entry numerator of the order-4 identity tensor: 8 * (d_ab d_cd + d_ac d_bd + d_ad d_bc) *)
Lemma teneye_count_4 : forall a b c d, teneye_count [a; b; c; d] =
  8 * ((if a =? b then 1 else 0) * (if c =? d then 1 else 0) +
       (if a =? c then 1 else 0) * (if b =? d then 1 else 0) +
       (if a =? d then 1 else 0) * (if b =? c then 1 else 0)).
Proof.
  intros a b c d. unfold teneye_count. rewrite length_filter_sum.
  cbn [perms insert_all flat_map map app fold_right]. unfold pairs_match. cbn.
  rewrite ?(Nat.eqb_sym b a), ?(Nat.eqb_sym c a), ?(Nat.eqb_sym d a), ?(Nat.eqb_sym c b), ?(Nat.eqb_sym d b),
    ?(Nat.eqb_sym d c).
  timeout 60 (destruct (Nat.eqb_spec a b), (Nat.eqb_spec a c), (Nat.eqb_spec a d), (Nat.eqb_spec b c),
    (Nat.eqb_spec b d), (Nat.eqb_spec c d); try reflexivity; exfalso; congruence).
Qed.
