(* Model/C20Harness.v — Z / Qc instances of the C20 models and the boolean checks used by generated cases.
   Definitions only. *)
From Coq Require Import List Arith ZArith Bool QArith Qcanon.
From PV Require Import Base.Index Base.Sum Np.Array Model.Sparse Model.Repr Model.Harness Model.C20Gen.
Import ListNotations.

Definition zfrom_function := @from_function Z 0%Z.
Definition ztenones := @tenones Z 0%Z 1%Z.
Definition ztenzeros := @tenzeros Z 0%Z.
Definition zkfrom_function := @kfrom_function Z 1%Z.
Definition ztendiag := @tendiag Z 0%Z.
Definition zsptendiag := @sptendiag Z 0%Z Z.add zisz.

(* the reducers exercised by the correspondence stream (numpy_groupies names + callables) *)
Inductive reducer := RSum | RMax | RMin | RProd | RFirst | RLast | RLen | RFirstMinusRest | RTenFirstPlusLast | RMean.
Definition zreduce (r : reducer) (l : list Z) : Z :=
  match r with
  | RSum => fold_right Z.add 0%Z l
  | RMax => match l with [] => 0%Z | x :: t => fold_left Z.max t x end
  | RMin => match l with [] => 0%Z | x :: t => fold_left Z.min t x end
  | RProd => fold_right Z.mul 1%Z l
  | RFirst => hd 0%Z l
  | RLast => last l 0%Z
  | RLen => Z.of_nat (length l)
  | RFirstMinusRest => match l with [] => 0%Z | x :: t => (x - fold_right Z.add 0 t)%Z end
  | RTenFirstPlusLast => (10 * hd 0 l + last l 0)%Z
  (* mean: generated only with group sums divisible by the group size (exact) *)
  | RMean => match l with [] => 0%Z | _ => (fold_right Z.add 0 l / Z.of_nat (length l))%Z end
  end.
Definition zaggregator (so : option shape) (N : nat) (subs : list idx) (vals : list Z) (r : reducer) : option (sparse Z) :=
  @from_aggregator_chk Z zisz so N subs vals (zreduce r).

(* observed sparse tensor = well-formed, same shape, same array, same nnz as the model's *)
Definition sp_agrees (obs model : sparse Z) : bool :=
  sp_denotes obs (full 0%Z model) && Nat.eqb (nnz obs) (nnz model).
Definition opt_sp_agrees (obs model : option (sparse Z)) : bool :=
  match obs, model with
  | Some a, Some b => sp_agrees a b
  | None, None => true
  | _, _ => false
  end.

(* random sparse generator on captured draws, for a normalised request (saturated, nz): raw equality (stored order
   included) + number of draws consumed (a saturated request consumes none) *)
Definition zsprand := @sprand Z.
Definition zsprand_req := @sprand_req Z.
Definition sprand_agrees (sat : bool) (nz : nat) (s : shape) (draws : list (list (list Z))) (vals : list Z) (ndraws : nat)
           (obs : sparse Z) : bool :=
  sp_raw_eqb obs (zsprand_req sat nz s draws vals) && Nat.eqb ndraws (sprand_req_consumed sat nz s draws).
Definition onat_eqb := opt_eqb Nat.eqb.

(* teneye: A[i] = teneye_count i / m!  (observed entries are floats: compared within 1e-9) *)
Definition fact_q (m : nat) : Qc := Q2Qc (Z.of_nat (fact m) # 1).
Definition teneye_entry (m : nat) (i : idx) : Qc := (Q2Qc (Z.of_nat (teneye_count i) # 1) / fact_q m)%Qc.
Definition teneye_agrees (m n : nat) (obs : dense Qc) : bool :=
  qden_matches tol9 (repeat n m) (teneye_entry m) obs.
(* the closed form of the entry (C20Gen.teneye_formula / m!) against the observed tensor *)
Definition teneye_entry_f (m : nat) (i : idx) : Qc := (Q2Qc (Z.of_nat (teneye_formula i) # 1) / fact_q m)%Qc.
Definition teneye_formula_agrees (m n : nat) (obs : dense Qc) : bool :=
  qden_matches tol9 (repeat n m) (teneye_entry_f m) obs.
(* symmetric multiplication in all modes but the first: (A x^{m-1})_a = sum_{j} A[a :: j] * prod_k x[j_k] *)
Definition qprodx (x : list Qc) (j : idx) : Qc := fold_right (fun k acc => (nth k x q0 * acc)%Qc) q1 j.
Definition ttsv1 (A : dense Qc) (m n : nat) (x : list Qc) (a : nat) : Qc :=
  fold_right Qcplus q0 (map (fun j => (qden A (a :: j) * qprodx x j)%Qc) (allsubs (repeat n (m - 1)))).
Fixpoint qpow (b : Qc) (k : nat) : Qc := match k with O => q1 | S k' => (b * qpow b k')%Qc end.
Definition qdot (x : list Qc) : Qc := fold_right Qcplus q0 (map (fun v => (v * v)%Qc) x).
(* ttsv(I, x) = ||x||^(m-2) x, checked on the observed tensor *)
Definition teneye_identity_ok (A : dense Qc) (m n : nat) (x : list Qc) : bool :=
  forallb (fun a => qclose tol6 (ttsv1 A m n x a) (qpow (qdot x) (m / 2 - 1) * nth a x q0)%Qc) (seq 0 n).

(* ---- whole-call checks for sptensor.from_function / sptenrand (request normalisation included) ---- *)
Inductive sobs := SRej | SCrash | SOk (o : sparse Z).
(* pyttb must agree with the faithful model of the code as repaired (request normalisation incl. the saturated branch of
   /repo 2b4b024, redraw loop on the captured draws with the union of all consumed draws as a fallback (repair of A-46),
   raw stored lists, number of draws consumed; a zero count gives the empty tensor).  ONE accepted behaviour: there is
   no open finding and no either-or region any more (C20-N3 is repaired; n3_region is gone).
   Order 0 (the empty shape, one cell): the sparse constructor cannot hold a subscript row of width zero, so a request
   that normalises to a positive count is rejected (as sptendiag with elements and the empty shape, C20_sptendiag_request);
   a request that normalises to zero gives the empty order-0 tensor *)
Definition order0_positive (s : shape) (nz : nat) : bool := Nat.eqb (length s) 0 && Nat.ltb 0 nz.
Definition sprand_call_ok (cnt_impl : option (bool * nat)) (s : shape) (draws : list (list (list Z))) (vals : list Z)
           (ndraws : nat) (obs : sobs) : bool :=
  match cnt_impl, obs with
  | None, SRej => true
  | Some (sat, nz), SRej => order0_positive s nz
  | Some (sat, nz), SOk o => negb (order0_positive s nz) && sprand_agrees sat nz s draws vals ndraws o
  | _, _ => false
  end.

(* ---- ill-formed requests (sizes as Z: negative sizes can be written down) ---- *)
Definition zshape_ok (s : list Z) : bool := forallb (fun d => (0 <=? d)%Z) s.
Definition to_shape (s : list Z) : shape := map Z.to_nat s.
(* tenones / tenzeros / tenrand / tensor.from_function: numpy rejects a negative size, ttb.tensor the empty shape *)
Definition dense_gen_guard (s : list Z) : bool := zshape_ok s && negb (Nat.eqb (length s) 0).
Definition ztenones_chk (s : list Z) : option (dense Z) := if dense_gen_guard s then ztenones (to_shape s) else None.
Definition ztenzeros_chk (s : list Z) : option (dense Z) := if dense_gen_guard s then ztenzeros (to_shape s) else None.
(* teneye(ndims, size): even positive order, non-negative size *)
Definition teneye_guard (m n : Z) : bool := Z.even m && (0 <? m)%Z && (0 <=? n)%Z.
(* tendiag / sptendiag with a shape that may hold non-positive sizes: every size is raised to max(N, dim), so such a
   request is ACCEPTED and enlarged ("if provided shape is too small the tensor will be enlarged to accommodate") *)
Definition pyttb_diag_shape (N : nat) (s : list Z) : shape := map (fun d => Z.to_nat (Z.max (Z.of_nat N) d)) s.
(* ... which is the shape rule applied to the shape with its negative sizes clamped to zero (Proofs/C20Guards.v) *)
Definition ztendiag_z (e : list Z) (so : option (list Z)) : dense Z := ztendiag e (option_map to_shape so).
Definition zsptendiag_z (e : list Z) (so : option (list Z)) : sparse Z := zsptendiag e (option_map to_shape so).
(* sptendiag hands the constructed shape to the sptensor constructor, which rejects a size below one: this can only
   happen when there is no element at all (N = 0) and the requested shape holds a non-positive size *)
Definition zsptendiag_chk (e : list Z) (s : list Z) : option (sparse Z) :=
  if forallb (fun d => (0 <? Z.max (Z.of_nat (length e)) d)%Z) s then Some (zsptendiag_z e (Some s)) else None.

(* ---- wave 3: corner requests ---- *)
(* from_aggregator with sizes written as Z: tt_sizecheck rejects a size below one; without a shape and without a
   subscript there is nothing to infer the shape from (rejected) *)
Definition zaggregator_z (so : option (list Z)) (N : nat) (subs : list idx) (vals : list Z) (r : reducer) : option (sparse Z) :=
  match so with
  | Some s => if forallb (fun d => (0 <? d)%Z) s then zaggregator (Some (to_shape s)) N subs vals r else None
  | None => match subs with [] => None | _ => zaggregator None N subs vals r end
  end.
(* the constructed shape of tendiag / sptendiag for an optional requested shape with sizes in Z *)
Definition diag_shape_z (N : nat) (so : option (list Z)) : shape :=
  match so with None => repeat N N | Some s => pyttb_diag_shape N s end.
(* tendiag, every request (no element, empty shape included): what the property demands.  An order-0 dense tensor
   cannot be generated (tenzeros rejects the empty shape, C20_dense_generator_guard), so the request is rejected
   exactly when the constructed shape is empty; with no element and a non-empty shape the result is the zero tensor *)
Definition ztendiag_req (e : list Z) (so : option (list Z)) : option (dense Z) :=
  match diag_shape_z (length e) so with [] => None | _ => Some (ztendiag_z e so) end.
(* sptendiag, every request: an order-0 tensor cannot carry diagonal elements (rejected when there are elements and
   the constructed shape is empty); sizes below one are rejected by the sparse constructor (only without elements) *)
Definition zsptendiag_req (e : list Z) (so : option (list Z)) : option (sparse Z) :=
  match diag_shape_z (length e) so, e with
  | [], _ :: _ => None
  | _, _ => match so with
            | Some s => zsptendiag_chk e s
            | None => Some (zsptendiag e None)
            end
  end.
