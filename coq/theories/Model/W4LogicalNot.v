(* Model/W4LogicalNot.v — hand reference for sptensor.logical_not() as generated into Gen/GenSptensor4c.v: all subscripts
   of the shape (the generated sptensor.allsubs) minus the stored ones (the generated tt_setdiff_rows), each with value 1. *)
From Coq Require Import List ZArith Arith Bool Lia.
From PV Require Import Np.NpZ Np.NpZ2 Np.NpZ3 Np.NpZ3c Np.NpZ3d Np.NpZ3e Np.NpZ4 Np.NpZ4b Gen.GenUtils Gen.GenKernels Gen.GenMethods2.
Import ListNotations.
Local Open Scope Z_scope.

Definition H_logical_not (self : sptz) : res sptz :=
  bind (sptensor_allsubs self) (fun all =>
  bind (tt_setdiff_rows all (spt_subs self)) (fun idx =>
    let s := np_take [] all idx in
    let ones := map (fun _ : vec => 1) s in
    if np_take_ok all idx && spt_make_ok s ones (spt_shape self) then Ok (mkspt s ones (spt_shape self)) else Err)).
