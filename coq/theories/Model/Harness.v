(* Model/Harness.v — boolean comparison helpers used by the generated correspondence cases. *)
From Coq Require Import List ZArith Bool.
From PV Require Import Np.NpZ.
Import ListNotations.
Local Open Scope Z_scope.

Fixpoint list_eqb {A} (eqb : A -> A -> bool) (l1 l2 : list A) : bool :=
  match l1, l2 with
  | [], [] => true
  | x :: l1', y :: l2' => eqb x y && list_eqb eqb l1' l2'
  | _, _ => false
  end.
Definition vec_eqb := list_eqb Z.eqb.
Definition mat_eqb := list_eqb vec_eqb.
Definition bvec_eqb := list_eqb Bool.eqb.
Definition nvec_eqb := list_eqb Nat.eqb.
Definition nmat_eqb := list_eqb nvec_eqb.
Definition opt_eqb {A} (eqb : A -> A -> bool) (o1 o2 : option A) : bool :=
  match o1, o2 with
  | None, None => true
  | Some x, Some y => eqb x y
  | _, _ => false
  end.
Definition res_eqb {A} (eqb : A -> A -> bool) (r1 r2 : res A) : bool :=
  match r1, r2 with
  | Err, Err => true
  | Ok x, Ok y => eqb x y
  | _, _ => false
  end.
Definition pair_eqb {A B} (ea : A -> A -> bool) (eb : B -> B -> bool) (p q : A * B) : bool :=
  ea (fst p) (fst q) && eb (snd p) (snd q).

(* ---------------------------------------------------------------------------------------- *)
(* Z and Qc instances of the shared models, and observation comparison                      *)
(* ---------------------------------------------------------------------------------------- *)
From Coq Require Import QArith Qabs Qcanon Arith.
From PV Require Import Base.Index Base.Sum Np.Array Model.Sparse Model.Repr.

Definition zisz (v : Z) : bool := (v =? 0)%Z.
Definition zden (T : dense Z) : idx -> Z := den_dense 0%Z T.
Definition zden_sp (S : sparse Z) : idx -> Z := den_sp 0%Z S.
Definition zden_k (K : ktensor Z) : idx -> Z := den_k 0%Z 1%Z Z.add Z.mul K.
Definition zden_t (T : ttensor Z) : idx -> Z := den_t 0%Z 1%Z Z.add Z.mul T.
Definition ztab (s : shape) (f : idx -> Z) : dense Z := tabulate s f.

Definition dense_eqb (A B : dense Z) : bool := nvec_eqb (dshape A) (dshape B) && vec_eqb (ddata A) (ddata B).
Definition sp_raw_eqb (A B : sparse Z) : bool :=
  nvec_eqb (sshape A) (sshape B) && nmat_eqb (ssubs A) (ssubs B) && vec_eqb (svals A) (svals B).
(* a sparse observation is well-formed and denotes the dense array T *)
Definition sp_denotes (S : sparse Z) (T : dense Z) : bool :=
  wf_spb zisz S && nvec_eqb (sshape S) (dshape T) &&
  forallb (fun k => (zden_sp S (ind2sub (dshape T) k) =? nth k (ddata T) 0)%Z) (seq 0 (size (dshape T))).
(* any denotation against a dense observation *)
Definition den_matches (s : shape) (f : idx -> Z) (T : dense Z) : bool :=
  nvec_eqb s (dshape T) && wf_denseb T && forallb (fun k => (f (ind2sub s k) =? nth k (ddata T) 0)%Z) (seq 0 (size s)).

(* Qc *)
Definition qisz (v : Qc) : bool := Qc_eq_bool v (Q2Qc 0).
Definition qadd := Qcplus. Definition qmul := Qcmult.
Definition q0 : Qc := Q2Qc 0. Definition q1 : Qc := Q2Qc 1.
Definition qden (T : dense Qc) : idx -> Qc := den_dense q0 T.
Definition qden_sp (S : sparse Qc) : idx -> Qc := den_sp q0 S.
Definition qden_k (K : ktensor Qc) : idx -> Qc := den_k q0 q1 Qcplus Qcmult K.
Definition qden_t (T : ttensor Qc) : idx -> Qc := den_t q0 q1 Qcplus Qcmult T.
Definition qabs (x : Qc) : Qc := Q2Qc (Qabs x).
Definition qleb (x y : Qc) : bool := Qle_bool x y.
Definition qmax (x y : Qc) : Qc := if qleb x y then y else x.
(* |obs - exact| <= tol * max(1, |exact|) *)
Definition qclose (tol obs exact : Qc) : bool :=
  qleb (qabs (obs - exact)) (tol * qmax q1 (qabs exact)).
Definition tol9 : Qc := Q2Qc (1 # 1000000000).
Definition tol6 : Qc := Q2Qc (1 # 1000000).
Definition qvec_close (tol : Qc) (l1 l2 : list Qc) : bool := list_eqb (qclose tol) l1 l2.
Definition qden_matches (tol : Qc) (s : shape) (f : idx -> Qc) (T : dense Qc) : bool :=
  nvec_eqb s (dshape T) && wf_denseb T && forallb (fun k => qclose tol (nth k (ddata T) q0) (f (ind2sub s k))) (seq 0 (size s)).
