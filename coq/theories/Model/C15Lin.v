(* Model/C15Lin.v — wave 4: line-by-line transliteration of the NEW (version=None) bodies of tensor.symmetrize and
   tensor.issymmetric (pyttb/tensor.py) on the stored container, over the translator-GENERATED index helpers
   tt_ind2sub / tt_sub2ind (Gen/GenUtils.v, regenerated from pyttb/pyttb_utils.py on every run):

     idx = tt_ind2sub(self.shape, np.arange(0, data.size))
     classidx = idx; classidx[:, thisgrp] = np.sort(idx[:, thisgrp], axis=1)
     linclassidx = tt_sub2ind(self.shape, classidx)
     if np.all(data.ravel(order="F") == data[tuple(classidx.transpose())]): continue
     classSum = accumarray(linclassidx, data.ravel(order="F")); classNum = accumarray(linclassidx, 1)
     avg = classSum / classNum; newdata = avg[linclassidx]; data = np.reshape(newdata, self.shape, order="F")

   with the size check (AssertionError "Dimension mismatch") and the overlap check (np.intersect1d of the group with the
   later groups) in front of every group.  numpy / numpy_groupies primitives used: np.sort on a row, fancy indexing
   data[tuple(rows.T)] (= the entry at each row), aggregate(group_idx, a) (out[c] = sum of a[t] over the positions t with
   group_idx[t] = c, max+1 entries), elementwise == / division, avg[lin].
   Definitions only; Proofs/C15Lin.v proves sym_new_lin = Ok (sym_new_d ...) and issym_new_lin = Ok (issym_new_d ...). *)
From Coq Require Import List Arith ZArith Lia Bool.
From PV Require Import Base.Index Base.Perm Base.Sum Np.Array Np.NpZ Proofs.NpZProofs Gen.GenUtils Model.Repr
  Model.C15Sym Model.C15Impl.
Import ListNotations.

(* a row of a numpy integer array read back as subscripts *)
Definition nrow (r : list Z) : idx := map Z.to_nat r.

(* the positions t of group_idx that hold the key c *)
Definition positions_of (lin : list nat) (c : nat) : list nat :=
  filter (fun t => Nat.eqb (nth t lin 0) c) (seq 0 (length lin)).

(* np.intersect1d(thisgrp, grps[i+1:, :]).size != 0 *)
Definition overlaps (g : list nat) (rest : list (list nat)) : bool :=
  existsb (fun m => existsb (fun g' => existsb (Nat.eqb m) g') rest) g.

(* idx = tt_ind2sub(shape, arange(n)); classidx[:, g] = np.sort(idx[:, g], axis=1) *)
Definition class_rows (s : shape) (n : nat) (g : list nat) : res (list idx) :=
  bind (tt_ind2sub (zs s) (zs (seq 0 n)) OrdF) (fun idx => Ok (map (fun r => sort_in g (nrow r)) idx)).

Section L15.
Context {V : Type} (v0 v1 : V) (vadd vmul : V -> V -> V) (vinv : V -> V) (veqb : V -> V -> bool).

(* numpy_groupies.aggregate(lin, a, func="sum"): max(lin)+1 entries *)
Definition accum (lin : list nat) (a : nat -> V) : list V :=
  map (fun c => sum_over v0 vadd (positions_of lin c) a) (seq 0 (S (list_max lin))).

(* np.all(a == b) / np.any(a != b) on two flat arrays of the length of a *)
Definition all_eq (a b : list V) : bool := forallb (fun k => veqb (nth k a v0) (nth k b v0)) (seq 0 (length a)).

(* data.ravel() compared with data[tuple(classidx.T)] *)
Definition exemplars_equal (T : dense V) (classidx : list idx) : bool :=
  all_eq (ddata T) (map (den_dense v0 T) classidx).

(* one group of NEW symmetrize on the container (after the two checks) *)
Definition sym_new_lin_step (T : dense V) (g : list nat) : res (dense V) :=
  let s := dshape T in let data := ddata T in
  bind (class_rows s (length data) g) (fun classidx =>
  bind (tt_sub2ind (zs s) (zm classidx) OrdF) (fun linz =>
  let lin := nrow linz in
  if exemplars_equal T classidx then Ok T
  else
    let classSum := accum lin (fun t => nth t data v0) in
    let classNum := accum lin (fun _ => v1) in
    let avg := map (fun p => vmul (fst p) (vinv (snd p))) (combine classSum classNum) in
    Ok (mkDense s (map (fun c => nth c avg v0) lin)))).

(* the loop over the groups; Err = AssertionError *)
Fixpoint sym_new_lin (T : dense V) (G : list (list nat)) : res (dense V) :=
  match G with
  | [] => Ok T
  | g :: G' =>
      if negb (group_cubical (dshape T) g) then Err
      else if overlaps g G' then Err
      else bind (sym_new_lin_step T g) (fun T' => sym_new_lin T' G')
  end.

(* NEW issymmetric on the container: size check (-> False), class exemplars (-> False), survived all -> True *)
Fixpoint issym_new_lin (T : dense V) (G : list (list nat)) : res bool :=
  match G with
  | [] => Ok true
  | g :: G' =>
      if negb (group_cubical (dshape T) g) then Ok false
      else bind (class_rows (dshape T) (length (ddata T)) g) (fun classidx =>
           if exemplars_equal T classidx then issym_new_lin T G' else Ok false)
  end.
End L15.
