(* Proofs/C02SwitchProofs.v — the 50% container switch of sptensor.ttv / sptensor.contract is a function of the DENOTED array alone: the
   coordinate-list kernels densify exactly when more than half of the entries of the defining sum (spec_ttv / spec_contract of the array the
   operand denotes) are nonzero — whatever the stored order or the number of stored entries of the operand. *)
From Coq Require Import List Arith Lia Bool Ring.
From PV Require Import Base.Index Base.Perm Base.Sum Np.Array Model.Sparse Model.Repr Model.C02Spec Model.C02SpMore Model.C02Switch
                       Proofs.C02AbsorbProofs Proofs.C02IndicatorProofs Proofs.C02SpMoreProofs.
Import ListNotations.

Section P.
Variable V : Type.
Variables (v0 v1 : V) (vadd vmul vsub : V -> V -> V) (vopp : V -> V).
Hypothesis Vring : ring_theory v0 v1 vadd vmul vsub vopp (@eq V).
Variable isz : V -> bool.

Lemma densify_ext s (f g : idx -> V) : (forall i, inb s i = true -> f i = g i) -> densify isz s f = densify isz s g.
Proof.
  intros H. unfold densify, count_nz. do 3 f_equal.
  apply filter_ext_in. intros i Hi. apply in_allsubs in Hi. now rewrite (H i Hi).
Qed.

Theorem switch_ttv_sparse (S : sparse V) dims vs : wf_sp isz S ->
  NoDup dims -> (forall x, In x dims -> x < length (sshape S)) -> length vs = length dims ->
  densify isz (ttv_shape (sshape S) dims) (impl_ttv_sp v0 v1 vadd vmul S dims vs) =
  densify isz (ttv_shape (sshape S) dims) (spec_ttv v0 vadd vmul (den_sp v0 S) (sshape S) dims vs).
Proof.
  intros W Hn Hr HL. apply densify_ext. intros i Hi.
  now apply (impl_ttv_sp_correct V v0 v1 vadd vmul vsub vopp Vring isz).
Qed.

Theorem switch_contract_sparse (S : sparse V) i1 i2 : wf_sp isz S ->
  i1 <> i2 -> i1 < length (sshape S) -> i2 < length (sshape S) -> nth i1 (sshape S) 0 = nth i2 (sshape S) 0 ->
  densify isz (ttv_shape (sshape S) [i1; i2]) (impl_contract_sp v0 vadd S i1 i2) =
  densify isz (ttv_shape (sshape S) [i1; i2]) (spec_contract v0 vadd (den_sp v0 S) (sshape S) i1 i2).
Proof.
  intros W Hne H1 H2 Hs. apply densify_ext. intros i Hi.
  now apply (impl_contract_sp_correct V v0 v1 vadd vmul vsub vopp Vring isz).
Qed.

(* two operands that denote the same array get the same container *)
Theorem switch_repr_indep (S S' : sparse V) dims vs : wf_sp isz S -> wf_sp isz S' -> sshape S = sshape S' ->
  (forall i, den_sp v0 S i = den_sp v0 S' i) ->
  NoDup dims -> (forall x, In x dims -> x < length (sshape S)) -> length vs = length dims ->
  densify isz (ttv_shape (sshape S) dims) (impl_ttv_sp v0 v1 vadd vmul S dims vs) =
  densify isz (ttv_shape (sshape S') dims) (impl_ttv_sp v0 v1 vadd vmul S' dims vs).
Proof.
  intros W W' Es Ed Hn Hr HL. rewrite switch_ttv_sparse by auto. rewrite switch_ttv_sparse by (auto; now rewrite <- Es).
  rewrite <- Es. apply densify_ext. intros i Hi. unfold spec_ttv.
  apply (sum_modes_ext0 V v0 vadd vmul). intros ks. apply Ed.
Qed.
End P.
