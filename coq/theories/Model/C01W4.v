(* Model/C01W4.v — fourth wave: sumtensor.full AS EXECUTED (pyttb/sumtensor.py full; pyttb/tensor.py __add__ / tenfun_binary):
       result = self.parts[0].full()
       for part in self.parts[1:]: result += part          # tensor.__add__ -> tenfun(x + y, part):
                                                           #   part := part.full() unless it is a tensor (_tt_to_tensor);
                                                           #   assert self.shape == part.shape; tensor(self.data + part.data)
   with each part densified BY ITS OWN CODE ROUTE: tensor -> itself, sptensor.full (scatter), ktensor.full (ktensor_full_code:
   rank-0 branch / single-mode branch / Khatri-Rao split), ttensor.full with a dense core (tensor.ttm mode by mode:
   ttensor_full_impl) and with a SPARSE core (sptensor.ttm in mode 0, tensor.ttm afterwards: ttensor_full_spcore).
   Model/C01Conv.v sum_full adds the SPECIFIED densifications instead; Proofs/C01W4.v shows the two coincide.
   Definitions only. *)
From Coq Require Import List Arith Lia Bool.
From PV Require Import Base.Index Base.Perm Base.Sum Np.Array Model.Sparse Model.Repr Model.C07Ops Model.C01Conv Model.C01Unique
  Model.C01Coo Model.C02Spec Model.C02Dense Model.C01Ttm Model.C01W3.
Import ListNotations.

Fixpoint shape_eqb (a b : list nat) : bool :=
  match a, b with
  | [], [] => true
  | x :: a', y :: b' => Nat.eqb x y && shape_eqb a' b'
  | _, _ => false
  end.

Section W4.
Context {V : Type} (v0 v1 : V) (vadd vmul : V -> V -> V) (isz : V -> bool).

(* the parts of a sumtensor as pyttb holds them: a Tucker part has a dense OR a sparse core *)
Inductive part4 :=
  | QD (T : dense V) | QS (Sp : sparse V) | QK (K : ktensor V) | QT (T : ttensor V)
  | QTS (G : sparse V) (Us : list (matrix (V:=V))).

(* part.full() by the part's own code *)
Definition part4_full (p : part4) : option (dense V) :=
  match p with
  | QD T => Some T
  | QS Sp => Some (full v0 Sp)
  | QK K => ktensor_full_code v0 vadd vmul K
  | QT T => Some (ttensor_full_impl v0 vadd vmul T)
  | QTS G Us => ttensor_full_spcore v0 vadd vmul isz G Us
  end.

(* what the part denotes: the corresponding part of Model/C01Conv.v (a sparse core denotes its scatter) *)
Definition part4_spec (p : part4) : part V :=
  match p with
  | QD T => PD T | QS Sp => PS Sp | QK K => PK K | QT T => PT T
  | QTS G Us => PT (mkT (full v0 G) Us)
  end.

(* result += part *)
Definition iadd_part (acc : option (dense V)) (q : part4) : option (dense V) :=
  match acc, part4_full q with
  | Some a, Some b => if shape_eqb (dshape a) (dshape b) then Some (add_dense vadd a b) else None
  | _, _ => None
  end.

Definition sum_full_code (parts : list part4) : option (dense V) :=
  match parts with
  | [] => None
  | p :: rest => fold_left iadd_part rest (part4_full p)
  end.

(* sumtensor.double() = full().double() *)
Definition sum_double_code (parts : list part4) : option (dense V) := option_map dense_double (sum_full_code parts).

End W4.

Arguments part4 V : clear implicits.
Arguments QD {V} T. Arguments QS {V} Sp. Arguments QK {V} K. Arguments QT {V} T. Arguments QTS {V} G Us.
