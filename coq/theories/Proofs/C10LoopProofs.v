(* Proofs/C10LoopProofs.v — bookkeeping theorems about the transliterated loops of Model/C10Loop.v (all oracles arbitrary):
   hosvd      : dimorder validation = "is a permutation of range(d)"; every mode is treated exactly once; the final ranks entry of a
                mode is the requested one when non-zero and the rank rule's value on the spectrum of the tensor seen at that step
                otherwise; the factor is the leading-eigenvector block of that tensor; the tensor seen is the original one
                (non-sequential) or the one shrunk by the factors of the modes treated before (sequential); the returned core
   tucker_als : maxiters = 0 has no result (UnboundLocalError); otherwise a result exists, iters < maxiters, the fit trace has
                iters + 1 entries and ends in the reported fit, the factors are those after iters + 1 sweeps, the convergence test
                failed in every iteration before the last and fired in the last unless the limit was hit; Uinit is returned as given *)
From Coq Require Import List Arith Bool Lia Permutation Sorted.
From PV Require Import Model.Sparse Model.C10Tucker Model.C10Loop.
Import ListNotations.

(* ---------------------------------------------------------------------------------------- *)
(* dimorder validation                                                                        *)
(* ---------------------------------------------------------------------------------------- *)
Lemma nlist_eqb_eq a : forall b, nlist_eqb a b = true <-> a = b.
Proof.
  induction a as [|x a IH]; intros [|y b]; cbn; split; intros H; try reflexivity; try discriminate.
  - apply andb_true_iff in H as [H1 H2]. apply Nat.eqb_eq in H1. apply IH in H2. congruence.
  - inversion H; subst. rewrite Nat.eqb_refl. cbn. now apply IH.
Qed.

Lemma ins_sorted_perm x l : Permutation (ins_sorted x l) (x :: l).
Proof.
  induction l as [|y l IH]; cbn; [reflexivity|]. destruct (x <=? y); [reflexivity|].
  rewrite IH. apply perm_swap.
Qed.

Lemma py_sorted_perm l : Permutation (py_sorted l) l.
Proof. induction l as [|x l IH]; cbn; [reflexivity|]. rewrite ins_sorted_perm. now constructor. Qed.

Lemma ins_sorted_sorted x l : StronglySorted le l -> StronglySorted le (ins_sorted x l).
Proof.
  induction 1 as [|y l Hs IH Hy]; cbn.
  - constructor; constructor.
  - destruct (x <=? y) eqn:E.
    + apply Nat.leb_le in E. constructor; [constructor; auto|]. constructor; [exact E|].
      eapply Forall_impl; [|exact Hy]. intros z Hz. cbv beta in Hz. lia.
    + apply Nat.leb_gt in E. constructor; [exact IH|].
      eapply Permutation_Forall; [symmetry; apply ins_sorted_perm|]. constructor; [lia|exact Hy].
Qed.

Lemma py_sorted_sorted l : StronglySorted le (py_sorted l).
Proof. induction l as [|x l IH]; cbn; [constructor|]. now apply ins_sorted_sorted. Qed.

Lemma seq_sorted d : forall a, StronglySorted le (seq a d).
Proof.
  induction d as [|d IH]; intros a; cbn; constructor; [apply IH|].
  apply Forall_forall. intros z Hz. apply in_seq in Hz. lia.
Qed.

Lemma sorted_perm_eq : forall l1 l2 : list nat, StronglySorted le l1 -> StronglySorted le l2 -> Permutation l1 l2 -> l1 = l2.
Proof.
  induction l1 as [|a l1 IH]; intros l2 H1 H2 Hp.
  - apply Permutation_nil in Hp. now subst.
  - destruct l2 as [|b l2]; [apply Permutation_sym, Permutation_nil in Hp; discriminate|].
    inversion H1 as [|? ? Hs1 Ha]; subst. inversion H2 as [|? ? Hs2 Hb]; subst.
    assert (a = b).
    { assert (Ia : In a (b :: l2)) by (eapply Permutation_in; [exact Hp|now left]).
      assert (Ib : In b (a :: l1)) by (eapply Permutation_in; [symmetry; exact Hp|now left]).
      rewrite Forall_forall in Ha, Hb.
      destruct Ia as [Ia|Ia]; [congruence|]. destruct Ib as [Ib|Ib]; [congruence|].
      specialize (Ha _ Ib). specialize (Hb _ Ia). lia. }
    subst b. f_equal. apply IH; auto. now apply Permutation_cons_inv in Hp.
Qed.

(* the test of hosvd / tucker_als accepts exactly the permutations of range(d) *)
Theorem dimorder_ok_iff d o : dimorder_ok d o = true <-> Permutation o (seq 0 d).
Proof.
  unfold dimorder_ok. rewrite nlist_eqb_eq. split; intros H.
  - rewrite H. symmetry. apply py_sorted_perm.
  - apply sorted_perm_eq; [apply seq_sorted|apply py_sorted_sorted|].
    rewrite py_sorted_perm. now symmetry.
Qed.

Lemma perm_range d o : Permutation o (seq 0 d) -> NoDup o /\ (forall k, In k o <-> k < d) /\ length o = d.
Proof.
  intros H. split; [|split].
  - eapply Permutation_NoDup; [symmetry; exact H|apply seq_NoDup].
  - intros k. split; intros Hk.
    + eapply Permutation_in in Hk; [|exact H]. apply in_seq in Hk. lia.
    + eapply Permutation_in; [symmetry; exact H|]. apply in_seq. lia.
  - rewrite (Permutation_length H). apply seq_length.
Qed.

(* ---------------------------------------------------------------------------------------- *)
(* hosvd                                                                                      *)
(* ---------------------------------------------------------------------------------------- *)
Section HosvdProofs.
Variables T Fac V : Type.
Variables (v0 : V) (vadd : V -> V -> V) (vltb : V -> V -> bool).
Variable eigvals : T -> nat -> list V.
Variable leading : T -> nat -> nat -> Fac.
Variable ttm_t : T -> Fac -> nat -> T.
Variable ttm_all_t : T -> list Fac -> T.
Variable fac0 : Fac.
Variable sequential : bool.
Variable thresh : V.

Notation loop := (hosvd_loop T Fac V v0 vadd vltb eigvals leading ttm_t sequential thresh).
Notation run := (hosvd_run T Fac V v0 vadd vltb eigvals leading ttm_t ttm_all_t fac0 sequential thresh).

(* the shrink step with the FINAL factors *)
Definition shrink (Us : list Fac) (Y : T) (j : nat) : T := ttm_t Y (nth j Us fac0) j.
(* the tensor hosvd looks at when it treats a mode that is preceded by the modes [pre] *)
Definition seen (Us : list Fac) (pre : list nat) (Y : T) : T := if sequential then fold_left (shrink Us) pre Y else Y.
(* rank decision for mode k on the tensor Yk, from the entry rq the caller put into ranks[k] *)
Definition rank_decided (rq : nat) (Yk : T) (k r : nat) : Prop :=
  match rq with
  | 0 => auto_rank v0 vadd vltb (eigvals Yk k) thresh = Some r
  | S _ => r = rq
  end.

Theorem hosvd_loop_inv : forall order ranks Us Y ranks' Us' Y' d,
  NoDup order -> (forall k, In k order -> k < d) -> length ranks = d -> length Us = d ->
  loop order ranks Us Y = Some (ranks', Us', Y') ->
  length ranks' = d /\ length Us' = d /\
  (forall k, ~ In k order -> nth k ranks' 0 = nth k ranks 0 /\ nth k Us' fac0 = nth k Us fac0) /\
  (forall k, In k order -> exists pre post, order = pre ++ k :: post /\
      let Yk := seen Us' pre Y in
      nth k Us' fac0 = leading Yk k (nth k ranks' 0) /\ rank_decided (nth k ranks 0) Yk k (nth k ranks' 0)) /\
  Y' = seen Us' order Y.
Proof.
  induction order as [|k order IH]; intros ranks Us Y ranks' Us' Y' d Hnd Hin Hr Hu H.
  - cbn in H. inversion H; subst. repeat split; auto.
    + intros k [].
    + unfold seen. now destruct sequential.
  - cbn [hosvd_loop] in H.
    set (rk := match nth k ranks 0 with 0 => auto_rank v0 vadd vltb (eigvals Y k) thresh | S _ => Some (nth k ranks 0) end) in H.
    destruct rk as [r|] eqn:Erk; [|discriminate].
    inversion Hnd as [|? ? Hk Hnd']; subst.
    assert (Hkd : k < length ranks) by (apply Hin; now left).
    set (U := leading Y k r) in *.
    set (Y1 := if sequential then ttm_t Y U k else Y) in *.
    specialize (IH (upd ranks k r) (upd Us k U) Y1 ranks' Us' Y' (length ranks) Hnd'
                   (fun j Hj => Hin j (or_intror Hj)) (upd_length _ _ _) ltac:(rewrite upd_length; exact Hu) H).
    destruct IH as (L1 & L2 & Hout & Hins & HY).
    destruct (Hout k Hk) as (Hrk & HUk). rewrite nth_upd in Hrk by exact Hkd. rewrite nth_upd in HUk by (rewrite Hu; exact Hkd).
    rewrite Nat.eqb_refl in Hrk, HUk.
    assert (HY1 : Y1 = seen Us' [k] Y).
    { unfold Y1, seen. destruct sequential; [|reflexivity]. cbn. unfold shrink. now rewrite HUk. }
    split; [exact L1|]. split; [exact L2|]. split; [|split].
    + intros j Hj. assert (j <> k) by (intros ->; apply Hj; now left).
      destruct (Hout j (fun Hc => Hj (or_intror Hc))) as (A & B).
      rewrite nth_upd in A by exact Hkd. rewrite nth_upd in B by (rewrite Hu; exact Hkd).
      destruct (Nat.eqb_spec j k); [contradiction|]. now split.
    + intros j [->|Hj].
      * exists [], order. split; [reflexivity|]. cbn zeta.
        assert (seen Us' [] Y = Y) as -> by (unfold seen; now destruct sequential).
        rewrite Hrk, HUk. split; [reflexivity|].
        unfold rank_decided. unfold rk in Erk. destruct (nth j ranks 0); [exact Erk|now inversion Erk].
      * destruct (Hins j Hj) as (pre & post & Eo & HU & HR). exists (k :: pre), post.
        split; [cbn; now rewrite Eo|]. cbn zeta in *.
        assert (Hjk : j <> k) by (intros ->; contradiction).
        assert (seen Us' (k :: pre) Y = seen Us' pre Y1) as ->.
        { rewrite HY1. unfold seen. destruct sequential; reflexivity. }
        rewrite nth_upd in HR by exact Hkd. destruct (Nat.eqb_spec j k); [contradiction|]. now split.
    + rewrite HY, HY1. unfold seen. destruct sequential; reflexivity.
Qed.

(* the whole function: which requests are rejected, and what an accepted request returns *)
Theorem hosvd_run_rejects : forall X d ranks_arg dimorder_arg,
  (match ranks_arg with Some r => length r <> d | None => False end -> run X d ranks_arg dimorder_arg = HErr ErrRanksLen) /\
  (match ranks_arg with Some r => length r = d | None => True end ->
   match dimorder_arg with Some o => ~ Permutation o (seq 0 d) | None => False end ->
   run X d ranks_arg dimorder_arg = HErr ErrDimorder).
Proof.
  intros X d ra da. unfold hosvd_run. split.
  - destruct ra as [r|]; [|intros []]. intros H. apply Nat.eqb_neq in H. now rewrite H.
  - intros Hr Hd. assert (E : length (match ra with None => repeat 0 d | Some r => r end) =? d = true).
    { apply Nat.eqb_eq. destruct ra; [exact Hr|apply repeat_length]. }
    rewrite E. cbn [negb]. destruct da as [o|]; [|contradiction].
    destruct (dimorder_ok d o) eqn:Eo; [apply dimorder_ok_iff in Eo; contradiction|reflexivity].
Qed.

Theorem hosvd_run_ok : forall X d ranks_arg dimorder_arg G Us ranks',
  run X d ranks_arg dimorder_arg = HOk (G, Us, ranks') ->
  let ranks := match ranks_arg with None => repeat 0 d | Some r => r end in
  let dimorder := match dimorder_arg with None => seq 0 d | Some o => o end in
  length ranks = d /\ Permutation dimorder (seq 0 d) /\
  length Us = d /\ length ranks' = d /\
  (forall k, k < d -> exists pre post, dimorder = pre ++ k :: post /\
      let Yk := seen Us pre X in
      nth k Us fac0 = leading Yk k (nth k ranks' 0) /\ rank_decided (nth k ranks 0) Yk k (nth k ranks' 0)) /\
  G = (if sequential then fold_left (shrink Us) dimorder X else ttm_all_t X Us).
Proof.
  intros X d ra da G Us ranks' H ranks dimorder. unfold hosvd_run in H. fold ranks in H. fold dimorder in H.
  destruct (length ranks =? d) eqn:El; [|discriminate]. apply Nat.eqb_eq in El. cbn [negb] in H.
  assert (Hp : Permutation dimorder (seq 0 d)).
  { unfold dimorder in *. destruct da as [o|]; [|reflexivity].
    destruct (dimorder_ok d o) eqn:Eo; [now apply dimorder_ok_iff|discriminate]. }
  assert (H' : match loop dimorder ranks (repeat fac0 d) X with
               | Some (ranks'0, Us0, Y) => HOk (if sequential then Y else ttm_all_t Y Us0, Us0, ranks'0)
               | None => HErr ErrIndex end = HOk (G, Us, ranks')).
  { destruct da as [o|]; [|exact H]. destruct (dimorder_ok d o); [exact H|discriminate]. }
  clear H. destruct (loop dimorder ranks (repeat fac0 d) X) as [[[rk Us0] Y]|] eqn:EL; [|discriminate].
  inversion H'; subst rk Us0. clear H'.
  destruct (perm_range d dimorder Hp) as (Hnd & Hin & _).
  destruct (hosvd_loop_inv dimorder ranks (repeat fac0 d) X ranks' Us Y d Hnd (fun k Hk => proj1 (Hin k) Hk) El
              (repeat_length _ _) EL) as (L1 & L2 & _ & Hins & HY).
  repeat split; auto.
  - intros k Hk. apply Hins. now apply Hin.
  - rewrite HY. unfold seen. destruct sequential; reflexivity.
Qed.

End HosvdProofs.

(* ---------------------------------------------------------------------------------------- *)
(* tucker_als                                                                                 *)
(* ---------------------------------------------------------------------------------------- *)
Section TalsProofs.
Variables Fac Ut Core F : Type.
Variable project : list Fac -> nat -> Ut.
Variable nvecs : Ut -> nat -> nat -> Fac.
Variable core_of : Ut -> list Fac -> nat -> Core.
Variable normres_of : Core -> F.
Variable fit_of : F -> F.
Variable fchange_lt : F -> F -> F -> bool.
Variable fit0 : F.
Variable rank : list nat.
Variable dimorder : list nat.
Variable stoptol : F.
Variable printitn : nat.

Notation inner := (tals_inner Fac Ut project nvecs rank).
Notation loop := (tals_loop Fac Ut Core F project nvecs core_of normres_of fit_of fchange_lt rank dimorder stoptol printitn).
Notation run := (tals_run Fac Ut Core F project nvecs core_of normres_of fit_of fchange_lt fit0 rank dimorder stoptol printitn).
Notation sweepU := (sweep Fac Ut project nvecs rank dimorder).
Notation iterU := (iter_sweep Fac Ut project nvecs rank dimorder).
Notation fitA := (fit_after Fac Ut Core F project nvecs core_of normres_of fit_of rank dimorder).

(* the inner loop: every listed mode is overwritten in turn; the (Utilde, n) left over is that of the LAST listed mode *)
Lemma tals_inner_last : forall order U l,
  length (fst (inner order U l)) = length U /\
  match order with
  | [] => snd (inner order U l) = l
  | _ :: _ => exists Utilde, snd (inner order U l) = Some (Utilde, last order 0)
  end.
Proof.
  induction order as [|n order IH]; intros U l; cbn [tals_inner]; [split; reflexivity|].
  destruct (IH (upd U n (nvecs (project U n) n (nth n rank 0))) (Some (project U n, n))) as (IL & IS).
  split; [now rewrite IL, upd_length|].
  destruct order as [|m order]; [eexists; exact IS|].
  destruct IS as (Ut0 & E). exists Ut0. rewrite E. reflexivity.
Qed.

Lemma iter_sweep_shift n : forall U, iterU n (sweepU U) = sweepU (iterU n U).
Proof. induction n as [|n IH]; intros U; cbn [iter_sweep]; [reflexivity|]. now rewrite IH. Qed.

Lemma iter_sweep_length n U : length (iterU n U) = length U.
Proof.
  induction n as [|n IH]; cbn [iter_sweep]; [reflexivity|]. unfold sweep.
  rewrite (proj1 (tals_inner_last dimorder (iterU n U) None)). exact IH.
Qed.

(* value of `fit` computed in iteration j (0-based) of a run started at U, and of `fitold` in that iteration *)
Definition fit_at (U : list Fac) (j : nat) : option F := fitA (iterU j U).
Definition fit_before (U : list Fac) (j : nat) : option F := match j with 0 => Some fit0 | S i => fit_at U i end.

Theorem tals_loop_spec : forall rem k U fit last o, dimorder <> [] -> 0 < rem ->
  loop rem k U fit last = Some o ->
  let j := to_iter _ _ _ o - k in
  k <= to_iter _ _ _ o < k + rem /\
  length (to_trace _ _ _ o) = S j /\
  to_U _ _ _ o = iterU (S j) U /\
  nth_error (to_trace _ _ _ o) j = Some (to_fit _ _ _ o) /\
  (forall i, i <= j -> nth_error (to_trace _ _ _ o) i = fitA (iterU i U)) /\
  (* the test failed in every iteration before the last one *)
  (forall i, i < j -> exists fo fi, (match i with 0 => Some fit | S i' => fitA (iterU i' U) end) = Some fo /\
                                     fitA (iterU i U) = Some fi /\ fchange_lt fo fi stoptol = false) /\
  (* and fired in the last one unless the limit was reached *)
  (to_iter _ _ _ o < k + rem - 1 ->
     exists fo, (match j with 0 => Some fit | S j' => fitA (iterU j' U) end) = Some fo /\
                fchange_lt fo (to_fit _ _ _ o) stoptol = true).
Proof.
  induction rem as [|rem IH]; intros k U fit last o Hne Hrem H; [lia|].
  cbn [tals_loop] in H.
  destruct (inner dimorder U None) as [U' lst] eqn:EI.
  assert (HU' : U' = sweepU U) by (unfold sweep; now rewrite EI).
  destruct lst as [[Utilde n]|]; [|discriminate].
  assert (Hfit : fitA U = Some (fit_of (normres_of (core_of Utilde U' n)))) by (unfold fit_after; now rewrite EI).
  set (core := core_of Utilde U' n) in *. set (nr := normres_of core) in *. set (fit' := fit_of nr) in *.
  destruct (fchange_lt fit fit' stoptol) eqn:Ech.
  - inversion H; subst o. cbn [to_iter to_trace to_U to_fit]. replace (k - k) with 0 by lia.
    split; [lia|]. split; [reflexivity|]. split; [cbn [iter_sweep]; exact HU'|]. split; [reflexivity|].
    split; [|split].
    + intros i Hi. assert (i = 0) as -> by lia. cbn [iter_sweep nth_error]. now rewrite Hfit.
    + intros i Hi. lia.
    + intros _. exists fit. split; [reflexivity|exact Ech].
  - destruct rem as [|rem].
    + cbn [tals_loop] in H. inversion H; subst o. cbn [to_iter to_trace to_U to_fit app]. replace (k - k) with 0 by lia.
      split; [lia|]. split; [reflexivity|]. split; [cbn [iter_sweep]; exact HU'|]. split; [reflexivity|].
      split; [|split].
      * intros i Hi. assert (i = 0) as -> by lia. cbn [iter_sweep nth_error]. now rewrite Hfit.
      * intros i Hi. lia.
      * intros Hlt. lia.
    + destruct (loop (S rem) (S k) U' fit' (Some (k, core, nr))) as [o'|] eqn:EL; [|discriminate].
      inversion H; subst o. cbn [to_iter to_trace to_U to_fit].
      destruct (IH (S k) U' fit' (Some (k, core, nr)) o' Hne ltac:(lia) EL) as (B & L & HUo & Hlast & Htr & Hfail & Hfire).
      cbn zeta in *. set (it := to_iter _ _ _ o') in *.
      assert (Ej : it - k = S (it - S k)) by lia. rewrite Ej.
      split; [lia|]. split; [cbn [length]; now rewrite L|]. split; [|split; [|split; [|split]]].
      * rewrite HUo, HU'. cbn [iter_sweep]. now rewrite iter_sweep_shift.
      * cbn [nth_error]. exact Hlast.
      * intros i Hi. destruct i as [|i]; [cbn [nth_error iter_sweep]; now rewrite Hfit|].
        cbn [nth_error]. rewrite Htr by lia. rewrite HU'. f_equal. cbn [iter_sweep]. now rewrite iter_sweep_shift.
      * intros i Hi. destruct i as [|i].
        { exists fit, fit'. cbn [iter_sweep]. now rewrite Hfit. }
        destruct (Hfail i ltac:(lia)) as (fo & fi & A & B' & C). exists fo, fi. split; [|split; [|exact C]].
        { destruct i as [|i]; [cbn [iter_sweep]; rewrite Hfit; exact A|].
          rewrite <- A. rewrite HU'. f_equal. cbn [iter_sweep]. now rewrite iter_sweep_shift. }
        { rewrite <- B'. rewrite HU'. f_equal. cbn [iter_sweep]. now rewrite iter_sweep_shift. }
      * intros Hlt. destruct (Hfire ltac:(lia)) as (fo & A & C). exists fo. split; [|exact C].
        destruct (it - S k) as [|j'] eqn:Ej'.
        { cbn [iter_sweep]. rewrite Hfit. exact A. }
        { rewrite <- A. rewrite HU'. f_equal. cbn [iter_sweep]. now rewrite iter_sweep_shift. }
Qed.

(* maxiters = 0: `core` is never bound — tucker_als has no result (UnboundLocalError in pyttb) *)
Theorem tals_run_zero : forall Uinit, run Uinit 0 = None.
Proof. reflexivity. Qed.

(* any positive limit and a non-empty dimorder: there is a result *)
Theorem tals_run_total : forall m Uinit, dimorder <> [] -> 0 < m -> exists r, run Uinit m = Some r.
Proof.
  intros m Uinit Hne Hm. unfold tals_run.
  assert (G : forall rem k U fit lst0, (0 < rem \/ lst0 <> None) -> exists o, loop rem k U fit lst0 = Some o).
  { induction rem as [|rem IH]; intros k U fit lst0 Hc.
    - destruct Hc as [Hc|Hc]; [lia|]. cbn. destruct lst0 as [[[it c] nr]|]; [eexists; reflexivity|contradiction].
    - cbn [tals_loop]. destruct (inner dimorder U None) as [U' lst] eqn:EI.
      pose proof (proj2 (tals_inner_last dimorder U None)) as HL. rewrite EI in HL. cbn [snd] in HL.
      destruct dimorder as [|n0 dm]; [contradiction|]. destruct HL as (Ut0 & ->).
      destruct (fchange_lt _ _ _); [eexists; reflexivity|].
      destruct (IH (S k) U' (fit_of (normres_of (core_of Ut0 U' (last (n0 :: dm) 0))))
                   (Some (k, core_of Ut0 U' (last (n0 :: dm) 0), normres_of (core_of Ut0 U' (last (n0 :: dm) 0))))
                   ltac:(right; discriminate)) as (o & ->).
      eexists; reflexivity. }
  destruct (G m 0 Uinit fit0 None ltac:(left; exact Hm)) as (o & ->). eexists; reflexivity.
Qed.

Theorem tals_run_spec : forall m Uinit r, dimorder <> [] -> run Uinit m = Some r ->
  0 < m /\ tr_iters _ _ _ r < m /\
  tr_init _ _ _ r = Uinit /\
  length (tr_U _ _ _ r) = length Uinit /\
  tr_U _ _ _ r = iterU (S (tr_iters _ _ _ r)) Uinit /\
  length (tr_trace _ _ _ r) = S (tr_iters _ _ _ r) /\
  nth_error (tr_trace _ _ _ r) (tr_iters _ _ _ r) = Some (tr_fit _ _ _ r) /\
  (forall i, i <= tr_iters _ _ _ r -> nth_error (tr_trace _ _ _ r) i = fit_at Uinit i) /\
  (forall i, i < tr_iters _ _ _ r -> exists fo fi, fit_before Uinit i = Some fo /\ fit_at Uinit i = Some fi /\
                                                     fchange_lt fo fi stoptol = false) /\
  (tr_iters _ _ _ r < m - 1 -> exists fo, fit_before Uinit (tr_iters _ _ _ r) = Some fo /\
                                          fchange_lt fo (tr_fit _ _ _ r) stoptol = true).
Proof.
  intros m Uinit r Hne H. destruct m as [|m]; [discriminate|]. unfold tals_run in H.
  destruct (loop (S m) 0 Uinit fit0 None) as [o|] eqn:EL; [|discriminate]. inversion H; subst r. clear H.
  cbn [tr_iters tr_init tr_U tr_trace tr_fit].
  destruct (tals_loop_spec (S m) 0 Uinit fit0 None o Hne ltac:(lia) EL) as (B & L & HU & Hl & Htr & Hfail & Hfire).
  cbn zeta in *. rewrite Nat.sub_0_r in *.
  split; [lia|]. split; [lia|]. split; [reflexivity|]. split; [rewrite HU; apply iter_sweep_length|].
  split; [exact HU|]. split; [exact L|]. split; [exact Hl|]. split; [exact Htr|]. split.
  - intros i Hi. destruct (Hfail i Hi) as (fo & fi & A & B' & C). exists fo, fi. split; [destruct i; exact A|]. split; [exact B'|exact C].
  - intros Hlt. destruct (Hfire ltac:(lia)) as (fo & A & C). exists fo. split; [|exact C].
    unfold fit_before, fit_at. destruct (to_iter _ _ _ o); exact A.
Qed.

End TalsProofs.

(* ---------------------------------------------------------------------------------------- *)
(* non-vacuity: toy oracles over nat (a tensor is the list of modes it was shrunk along)        *)
(* ---------------------------------------------------------------------------------------- *)
Definition ex_eig (Y : list nat) (k : nat) : list nat := [9 - length Y; 4; 1 + k; 0].
Definition ex_lead (Y : list nat) (k r : nat) : nat * nat * list nat := (k, r, Y).
Definition ex_ttm (Y : list nat) (U : nat * nat * list nat) (k : nat) : list nat := k :: Y.
Definition ex_hosvd (sequential : bool) :=
  hosvd_run (list nat) (nat * nat * list nat) nat 0 Nat.add Nat.ltb ex_eig ex_lead ex_ttm (fun Y _ => 99 :: Y) (7, 7, []) sequential 2.

Example hosvd_run_example :
  ex_hosvd true [] 3 (Some [0; 2; 0]) (Some [2; 0; 1]) =
    HOk ([1; 0; 2], [(0, 2, [2]); (1, 2, [0; 2]); (2, 3, [])], [2; 2; 3]) /\
  ex_hosvd false [] 3 None None = HOk ([99], [(0, 2, []); (1, 2, []); (2, 3, [])], [2; 2; 3]) /\
  ex_hosvd true [] 3 (Some [1; 1]) None = HErr ErrRanksLen /\
  ex_hosvd true [] 3 None (Some [0; 1; 1]) = HErr ErrDimorder /\
  hosvd_run (list nat) (nat * nat * list nat) nat 0 Nat.add Nat.ltb ex_eig ex_lead ex_ttm (fun Y _ => Y) (7, 7, []) true 100
            [] 2 None None = HErr ErrIndex.
Proof. repeat split; reflexivity. Qed.

(* factors are numbers; one sweep adds to them; the "fit" saturates so that the convergence test fires in iteration 2 *)
Definition ex_tals (stoptol maxiters printitn : nat) :=
  tals_run nat nat nat nat (fun U n => fold_right Nat.add 0 U + n) (fun Ut n r => Ut + r) (fun Ut U n => Nat.min 40 (Ut + n))
           (fun c => 40 - c) (fun nr => 100 - nr) (fun fo fi tol => (fi - fo) + (fo - fi) <? tol) 0 [1; 2] [1; 0] stoptol printitn
           [5; 6] maxiters.

Example tals_run_example :
  ex_tals 1 0 0 = None /\
  option_map (fun r => (tr_iters _ _ _ r, tr_trace _ _ _ r, tr_fit _ _ _ r, tr_init _ _ _ r, tr_log _ _ _ r)) (ex_tals 1 10 2) =
    Some (2, [79; 100; 100], 100, [5; 6], [TEvHeader nat; TEvIter nat 0 79 0; TEvIter nat 2 100 100]) /\
  option_map (fun r => (tr_iters _ _ _ r, tr_trace _ _ _ r)) (ex_tals 1 2 0) = Some (1, [79; 100]) /\
  option_map (fun r => tr_U _ _ _ r) (ex_tals 1 1 0) = Some [20; 14].
Proof. repeat split; reflexivity. Qed.
