(* Model/C14SpPost.v — the post-processing of sptensor.nvecs AS THE CODE RUNS IT (pyttb/sptensor.py, nvecs; open finding A-38), next to
   the post-processing of the other three representations (Model/C14Nvecs.v, postprocess: argsort(-|w|) on the COLUMNS, first r, flip):
     iterative path (r < I_n - 1):   _, v = scipy.sparse.linalg.eigs(y, r)              the r vectors as ARPACK returns them, no sort
     dense-solver path:              w, v = scipy.linalg.eig(y.toarray())
                                     v = v[(-np.abs(w)).argsort()]                     permutes the ROWS of v
                                     v = v[:, :r]
     both:                           flip loop (the same statements as in tensor.nvecs)
   A matrix is held as the list of its COLUMNS (as in postprocess).  Definitions only; proofs in Proofs/C14SpPost.v. *)
From Coq Require Import List Arith Bool.
From PV Require Import Model.C14Nvecs.
Import ListNotations.

Section SpPost.
Context {V : Type} (v0 : V) (vabs vopp : V -> V) (vltb : V -> V -> bool).

(* v[p]: row k of the result is row p[k] of v — column by column *)
Definition rows_perm (p : list nat) (cols : list (list V)) : list (list V) :=
  map (fun c => map (fun k => nth k c v0) p) cols.

Definition sp_post_dense (w : list V) (cols : list (list V)) (r : nat) (flipsign : bool) : list (list V) :=
  let sel := firstn r (rows_perm (argsort_desc_abs vabs vltb w) cols) in
  if flipsign then map (flip_col v0 vabs vopp vltb) sel else sel.

Definition sp_post_iter (cols : list (list V)) (flipsign : bool) : list (list V) :=
  if flipsign then map (flip_col v0 vabs vopp vltb) cols else cols.

(* |w| non-increasing: the one order of the solver output in which the code's result is the right one *)
Definition abs_nonincr (a b : V) : Prop := vltb (vabs a) (vabs b) = false.
End SpPost.
