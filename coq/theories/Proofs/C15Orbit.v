(* Proofs/C15Orbit.v — the orbit argument for symmetrisation (all shapes, groups, values):
     * rearranging a list rearranges the list of its rearrangements ([perms] respects [Permutation]),
     * the algebra of writing values at the positions of a group ([put]),
     * the average over a group is symmetric in that group; symmetrising over pairwise disjoint groups yields a tensor
       symmetric in every group and is idempotent,
     * the boolean symmetry test (adjacent exchanges at in-bounds subscripts) is equivalent to invariance under EVERY
       rearrangement inside the groups at every in-bounds subscript. *)
From Coq Require Import List Arith Lia Bool Permutation Ring.
From PV Require Import Base.Index Base.Perm Base.Sum Np.Array Model.Repr Model.C15Sym Proofs.C15Proofs.
Import ListNotations.

(* ------------------------------------------------------------------------------------------------ *)
(* perms respects Permutation                                                                        *)
(* ------------------------------------------------------------------------------------------------ *)
Lemma flat_map_map {A B C} (f : A -> B) (g : B -> list C) l : flat_map g (map f l) = flat_map (fun a => g (f a)) l.
Proof. induction l as [|a l IH]; cbn; auto. now rewrite IH. Qed.

Lemma map_flat_map {A B C} (f : B -> C) (g : A -> list B) l : map f (flat_map g l) = flat_map (fun a => map f (g a)) l.
Proof. induction l as [|a l IH]; cbn; auto. now rewrite map_app, IH. Qed.

Lemma flat_map_flat_map {A B C} (f : A -> list B) (g : B -> list C) l :
  flat_map g (flat_map f l) = flat_map (fun a => flat_map g (f a)) l.
Proof. induction l as [|a l IH]; cbn; auto. now rewrite flat_map_app, IH. Qed.

Lemma Permutation_flat_map_pointwise {A B} (f g : A -> list B) l :
  (forall a, Permutation (f a) (g a)) -> Permutation (flat_map f l) (flat_map g l).
Proof. intros H. induction l as [|a l IH]; cbn; auto. now apply Permutation_app. Qed.

Lemma flat_map_cons_split {A B} (h : A -> B) (t : A -> list B) l :
  Permutation (flat_map (fun a => h a :: t a) l) (map h l ++ flat_map t l).
Proof.
  induction l as [|a l IH]; cbn; auto. apply perm_skip.
  eapply perm_trans; [apply Permutation_app_head, IH|]. apply Permutation_app_swap_app.
Qed.

Lemma insert_all_cons y a r : insert_all y (a :: r) = (y :: a :: r) :: map (cons a) (insert_all y r).
Proof. reflexivity. Qed.

Lemma flat_insert_cons a y L :
  Permutation (flat_map (insert_all y) (map (cons a) L))
              (map (fun r => y :: a :: r) L ++ map (cons a) (flat_map (insert_all y) L)).
Proof.
  rewrite flat_map_map, map_flat_map.
  apply (flat_map_cons_split (fun r => y :: a :: r) (fun r => map (cons a) (insert_all y r))).
Qed.

(* inserting x then y anywhere = inserting y then x anywhere, as multisets *)
Lemma insert_insert x y p :
  Permutation (flat_map (insert_all y) (insert_all x p)) (flat_map (insert_all x) (insert_all y p)).
Proof.
  induction p as [|a q IH].
  - cbn. apply perm_swap.
  - rewrite !(insert_all_cons _ a q). cbn [flat_map].
    rewrite !insert_all_cons. cbn [map]. rewrite !map_map.
    eapply perm_trans; [apply Permutation_app_head, flat_insert_cons|].
    eapply perm_trans; [|symmetry; apply Permutation_app_head, flat_insert_cons].
    cbn [app]. eapply perm_trans; [apply perm_swap|]. do 2 apply perm_skip.
    eapply perm_trans; [apply Permutation_app_swap_app|]. do 2 apply Permutation_app_head.
    apply Permutation_map, IH.
Qed.

Lemma perms_Permutation l l' : Permutation l l' -> Permutation (perms l) (perms l').
Proof.
  induction 1 as [|x l l' _ IH|x y l|l l' l'' _ IH1 _ IH2].
  - apply Permutation_refl.
  - cbn. now apply Permutation_flat_map.
  - cbn. rewrite !flat_map_flat_map. apply Permutation_flat_map_pointwise. intros p. apply insert_insert.
  - eapply perm_trans; eauto.
Qed.

Lemma perms_length l y : In y (perms l) -> length y = length l.
Proof. intros H. symmetry. apply Permutation_length. now apply perms_sound. Qed.

(* ------------------------------------------------------------------------------------------------ *)
(* writing values at the positions of a group                                                        *)
(* ------------------------------------------------------------------------------------------------ *)
Lemma length_set_nth l k v : length (set_nth l k v) = length l.
Proof. revert k; induction l as [|x l IH]; intros [|k]; cbn; auto. Qed.

Lemma nth_set_nth_eq l k v d : k < length l -> nth k (set_nth l k v) d = v.
Proof. revert k; induction l as [|x l IH]; intros [|k] H; cbn in *; try lia; auto. apply IH. lia. Qed.

Lemma nth_set_nth_neq l k m v d : m <> k -> nth m (set_nth l k v) d = nth m l d.
Proof.
  revert k m; induction l as [|x l IH]; intros [|k] [|m] H; cbn; auto; try congruence.
Qed.

Lemma length_put g v i : length (put g v i) = length i.
Proof.
  revert v i; induction g as [|m g IH]; intros [|x v] i; cbn; auto. now rewrite IH, length_set_nth.
Qed.

Lemma nth_put_out g v i m : ~ In m g -> nth m (put g v i) 0 = nth m i 0.
Proof.
  revert v i; induction g as [|k g IH]; intros [|x v] i H; cbn; auto.
  rewrite IH by (intros Hin; apply H; now right). apply nth_set_nth_neq. intros ->. apply H. now left.
Qed.

(* a group of N-way subscripts: distinct modes, all of them modes of the tensor *)
Definition okg (N : nat) (g : list nat) : Prop := NoDup g /\ forall m, In m g -> m < N.

Lemma okg_tail N m g : okg N (m :: g) -> okg N g /\ ~ In m g /\ m < N.
Proof.
  intros [Hn Hb]. inversion Hn; subst. repeat split; auto.
  - intros k Hk. apply Hb. now right.
  - apply Hb. now left.
Qed.

Lemma nth_put_in g : forall v i t, okg (length i) g -> length v = length g -> t < length g ->
  nth (nth t g 0) (put g v i) 0 = nth t v 0.
Proof.
  induction g as [|m g IH]; intros v i t Hok Hv Ht; cbn in Ht; [lia|].
  destruct v as [|x v]; cbn in Hv; [lia|]. apply okg_tail in Hok as (Hok & Hm & Hlt).
  cbn [put]. destruct t as [|t]; cbn [nth].
  - rewrite nth_put_out by exact Hm. now apply nth_set_nth_eq.
  - apply IH; [now rewrite length_set_nth|lia|lia].
Qed.

Lemma pick_put g v i : okg (length i) g -> length v = length g -> pick 0 g (put g v i) = v.
Proof.
  intros Hok Hv. apply (nth_ext _ _ 0 0); [now rewrite pick_length|].
  intros t Ht. rewrite pick_length in Ht. rewrite nth_pick by exact Ht. now apply nth_put_in.
Qed.

Lemma idx_ext (j j' : idx) : length j = length j' -> (forall m, nth m j 0 = nth m j' 0) -> j = j'.
Proof. intros HL H. apply (nth_ext _ _ 0 0); auto. Qed.

Lemma put_put g v v' i : okg (length i) g -> length v = length g -> length v' = length g ->
  put g v (put g v' i) = put g v i.
Proof.
  intros Hok Hv Hv'. apply idx_ext; [now rewrite !length_put|]. intros m.
  destruct (in_dec Nat.eq_dec m g) as [Hin|Hout].
  - destruct (In_nth g m 0 Hin) as (t & Ht & <-).
    rewrite !nth_put_in; auto. now rewrite length_put.
  - now rewrite !nth_put_out.
Qed.

Lemma put_pick_id g i : okg (length i) g -> put g (pick 0 g i) i = i.
Proof.
  intros Hok. apply idx_ext; [now rewrite length_put|]. intros m.
  destruct (in_dec Nat.eq_dec m g) as [Hin|Hout].
  - destruct (In_nth g m 0 Hin) as (t & Ht & <-).
    rewrite nth_put_in; auto; [|now rewrite pick_length]. now rewrite nth_pick.
  - now rewrite nth_put_out.
Qed.

Definition disjoint (g1 g2 : list nat) : Prop := forall m, In m g1 -> ~ In m g2.

Lemma pick_put_disjoint g1 g2 v i : disjoint g1 g2 -> pick 0 g1 (put g2 v i) = pick 0 g1 i.
Proof. intros D. unfold pick. apply map_ext_in. intros m Hm. apply nth_put_out. now apply D. Qed.

Lemma put_comm g1 g2 v1 v2 i : okg (length i) g1 -> okg (length i) g2 -> disjoint g1 g2 ->
  length v1 = length g1 -> length v2 = length g2 ->
  put g1 v1 (put g2 v2 i) = put g2 v2 (put g1 v1 i).
Proof.
  intros H1 H2 D L1 L2. apply idx_ext; [now rewrite !length_put|]. intros m.
  destruct (in_dec Nat.eq_dec m g1) as [Hin|Hout].
  - rewrite (nth_put_out g2 v2 (put g1 v1 i)) by (now apply D).
    destruct (In_nth g1 m 0 Hin) as (t & Ht & <-).
    rewrite !nth_put_in; auto. now rewrite length_put.
  - rewrite (nth_put_out g1) by exact Hout.
    destruct (in_dec Nat.eq_dec m g2) as [Hin2|Hout2].
    + destruct (In_nth g2 m 0 Hin2) as (t & Ht & <-).
      rewrite !nth_put_in; auto. now rewrite length_put.
    + now rewrite !nth_put_out.
Qed.

(* in-bounds subscripts, position-wise *)
Lemma inb_nth s i : inb s i = true <-> length i = length s /\ forall m, m < length s -> nth m i 0 < nth m s 0.
Proof.
  revert i; induction s as [|d s IH]; intros [|x i]; cbn [inb length]; try (split; [discriminate|intros [? _]; discriminate]).
  - split; auto. intros _. split; auto. intros m Hm. lia.
  - rewrite andb_true_iff, IH, Nat.ltb_lt. split.
    + intros (Hx & HL & Hn). split; [lia|]. intros [|m] Hm; cbn; auto. apply Hn. lia.
    + intros (HL & Hn). split; [apply (Hn 0); lia|]. split; [lia|]. intros m Hm. apply (Hn (S m)). lia.
Qed.

Lemma inb_put s g v i d : inb s i = true -> okg (length s) g -> (forall m, In m g -> nth m s 0 = d) ->
  length v = length g -> Forall (fun x => x < d) v -> inb s (put g v i) = true.
Proof.
  intros Hi Hok Hd Hv Hlt. apply inb_nth in Hi as [HL Hn]. apply inb_nth. split; [now rewrite length_put|].
  intros m Hm. destruct (in_dec Nat.eq_dec m g) as [Hin|Hout].
  - destruct (In_nth g m 0 Hin) as (t & Ht & E). rewrite <- E at 1.
    rewrite nth_put_in; auto; [|now rewrite HL]. rewrite (Hd m Hin).
    rewrite Forall_forall in Hlt. apply Hlt. apply nth_In. lia.
  - rewrite nth_put_out by exact Hout. now apply Hn.
Qed.

Lemma pick_inb_lt s g i d : inb s i = true -> okg (length s) g -> (forall m, In m g -> nth m s 0 = d) ->
  Forall (fun x => x < d) (pick 0 g i).
Proof.
  intros Hi [_ Hb] Hd. apply inb_nth in Hi as [HL Hn]. apply Forall_forall. intros x Hx.
  unfold pick in Hx. apply in_map_iff in Hx as (m & <- & Hm). rewrite <- (Hd m Hm). apply Hn. now apply Hb.
Qed.

Lemma cubical_sizes s g : group_cubical s g = true -> forall m, In m g -> nth m s 0 = nth (hd 0 g) s 0.
Proof. unfold group_cubical. rewrite forallb_forall. intros H m Hm. apply Nat.eqb_eq. now apply H. Qed.

(* ------------------------------------------------------------------------------------------------ *)
(* the average is symmetric; several groups; idempotence                                             *)
(* ------------------------------------------------------------------------------------------------ *)
Section O15.
Variable V : Type.
Variables (v0 v1 : V) (vadd vmul vsub : V -> V -> V) (vopp vinv : V -> V) (veqb : V -> V -> bool).
Hypothesis Vring : ring_theory v0 v1 vadd vmul vsub vopp (@eq V).
Add Ring Vr15o : Vring.
Notation "x + y" := (vadd x y).
Notation "x * y" := (vmul x y).
Notation ofn := (of_nat v0 v1 vadd).
Notation symg := (sym_group v0 v1 vadd vmul vinv).
Notation ssym := (spec_sym v0 v1 vadd vmul vinv).

(* X is symmetric in the group g on N-way subscripts *)
Definition sym_inN (N : nat) (X : idx -> V) (g : list nat) : Prop :=
  forall i vals, length i = N -> Permutation (pick 0 g i) vals -> X (put g vals i) = X i.

(* THE ORBIT ARGUMENT: rearranging the subscripts inside the group only permutes the summands of the average *)
Lemma sym_group_symmetric N (X : idx -> V) g : okg N g -> sym_inN N (symg X g) g.
Proof.
  intros Hok i vals HN P. subst N. unfold sym_group.
  assert (Hv : length vals = length g) by (rewrite <- (Permutation_length P); apply pick_length).
  rewrite (pick_put g vals i Hok Hv).
  pose proof (perms_Permutation _ _ P) as PP.
  rewrite <- (Permutation_length PP). f_equal.
  rewrite (sum_over_perm V v0 v1 vadd vmul vsub vopp Vring _ _ _ PP).
  apply sum_over_ext. intros u Hu. f_equal. apply put_put; auto.
  apply perms_length in Hu. lia.
Qed.

Hypothesis char0 : forall n, n <> 0 -> ofn n <> v0.
Hypothesis vinv_l : forall x, x <> v0 -> vinv x * x = v1.

Lemma sym_group_fixes_N N (X : idx -> V) g : sym_inN N X g -> forall i, length i = N -> symg X g i = X i.
Proof.
  intros H i Hi. apply (sym_group_fixes V v0 v1 vadd vmul vsub vopp vinv Vring char0 vinv_l).
  intros vals Hv. now apply H.
Qed.

(* symmetrising one group twice = once *)
Lemma sym_group_idempotent N (X : idx -> V) g : okg N g -> forall i, length i = N -> symg (symg X g) g i = symg X g i.
Proof. intros Hok i Hi. apply (sym_group_fixes_N N); auto. now apply sym_group_symmetric. Qed.

(* averaging over a disjoint group keeps the symmetry in the first one *)
Lemma sym_group_keeps_sym N (X : idx -> V) g1 g2 : okg N g1 -> okg N g2 -> disjoint g1 g2 ->
  sym_inN N X g1 -> sym_inN N (symg X g2) g1.
Proof.
  intros H1 H2 D S i vals HN P. subst N. unfold sym_group.
  assert (Hv : length vals = length g1) by (rewrite <- (Permutation_length P); apply pick_length).
  assert (D' : disjoint g2 g1) by (intros m Hm Hm'; now apply (D m)).
  rewrite (pick_put_disjoint g2 g1 vals i D'). f_equal.
  apply sum_over_ext. intros u Hu. apply perms_length in Hu. rewrite pick_length in Hu.
  rewrite <- put_comm; auto.
  apply S; [now rewrite length_put|]. now rewrite (pick_put_disjoint g1 g2 u i D).
Qed.

Fixpoint groups_ok (N : nat) (G : list (list nat)) : Prop :=
  match G with
  | [] => True
  | g :: G' => okg N g /\ (forall g', In g' G' -> disjoint g g') /\ groups_ok N G'
  end.

Lemma groups_ok_okg N G g : groups_ok N G -> In g G -> okg N g.
Proof. induction G as [|g0 G IH]; cbn; [tauto|]. intros (H0 & _ & HG) [<-|Hin]; auto. Qed.

Lemma spec_sym_keeps_sym N G : forall (X : idx -> V) g0, okg N g0 -> (forall g, In g G -> okg N g /\ disjoint g0 g) ->
  sym_inN N X g0 -> sym_inN N (ssym X G) g0.
Proof.
  induction G as [|g G IH]; intros X g0 H0 HG S; cbn; auto.
  apply IH; auto.
  - intros g' Hg'. apply HG. now right.
  - destruct (HG g (or_introl eq_refl)) as [Hg D]. now apply sym_group_keeps_sym.
Qed.

(* RESULT SYMMETRIC: the symmetrised tensor is symmetric in every group *)
Lemma spec_sym_symmetric N G : groups_ok N G -> forall (X : idx -> V) g, In g G -> sym_inN N (ssym X G) g.
Proof.
  induction G as [|g1 G IH]; intros HG X g Hin; [contradiction|].
  destruct HG as (H1 & D1 & HG). cbn [spec_sym fold_left]. destruct Hin as [<-|Hin].
  - apply spec_sym_keeps_sym; auto.
    + intros g Hg. split; [now apply (groups_ok_okg N G)|now apply D1].
    + now apply sym_group_symmetric.
  - now apply IH.
Qed.

Lemma spec_sym_fixes_N N G : forall (X : idx -> V), (forall g, In g G -> sym_inN N X g) ->
  forall i, length i = N -> ssym X G i = X i.
Proof.
  induction G as [|g G IH]; intros X H i Hi; cbn; auto.
  assert (Hg : sym_inN N X g) by (apply H; now left).
  unfold spec_sym in IH. rewrite IH; auto.
  - now apply (sym_group_fixes_N N).
  - intros g' Hg' j vals Hj Hp. rewrite !(sym_group_fixes_N N X g Hg) by (rewrite ?length_put; auto).
    apply H; auto. now right.
Qed.

(* IDEMPOTENCE: symmetrising again changes nothing *)
Lemma spec_sym_idempotent N G (X : idx -> V) : groups_ok N G -> forall i, length i = N -> ssym (ssym X G) G i = ssym X G i.
Proof. intros HG i Hi. apply (spec_sym_fixes_N N); auto. intros g Hg. now apply spec_sym_symmetric. Qed.

End O15.
