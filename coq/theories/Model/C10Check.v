(* Model/C10Check.v — Qc instance of the Tucker model and the boolean certificate checks evaluated by the
   generated correspondence cases (exact rational arithmetic on pyttb's returned floats). *)
From Coq Require Import List Arith Bool ZArith QArith Qabs Qcanon.
From PV Require Import Base.Index Base.Sum Np.Array Model.Sparse Model.Repr Model.Harness Model.C10Tucker Model.C10Loop.
Import ListNotations.
Local Open Scope Qc_scope.

Definition qmatrix := list (list Qc).
Definition qltb (a b : Qc) : bool := negb (qleb b a).
Definition qttm := ttm q0 Qcplus Qcmult.
Definition qttm_all := ttm_all q0 Qcplus Qcmult.
Definition qttm_order := ttm_order q0 Qcplus Qcmult.
Definition qtransposed := transposed (V:=Qc) q0.
Definition qgram := gram q0 Qcplus Qcmult.
Definition qsumsq := sumsq q0 Qcplus Qcmult.
Definition qtfull_ttm := tfull_ttm q0 Qcplus Qcmult.
Definition qtfull := tfull q0 q1 Qcplus Qcmult.
Definition qdiffsq (A B : dense Qc) : Qc := qsumsq (dense_sub Qcminus A B).
Definition qauto_rank := auto_rank q0 Qcplus qltb.
Definition qtrace (G : qmatrix) : Qc := sum_n q0 Qcplus (length G) (fun i => mget q0 G i i).

Definition qeye (r : nat) : qmatrix :=
  map (fun j => map (fun k => if Nat.eqb j k then q1 else q0) (seq 0 r)) (seq 0 r).
(* |a - b| <= eps, entrywise, same layout *)
Definition qabs_close (eps a b : Qc) : bool := qleb (qabs (a - b)) eps.
Definition qmat_close (eps : Qc) (A B : qmatrix) : bool := list_eqb (list_eqb (qabs_close eps)) A B.
Definition qdense_close (eps : Qc) (A B : dense Qc) : bool :=
  nvec_eqb (dshape A) (dshape B) && wf_denseb A && list_eqb (qabs_close eps) (ddata A) (ddata B).

(* U (m x r) has orthonormal columns within eps *)
Definition orthob (eps : Qc) (U : qmatrix) (m r : nat) : bool :=
  wf_matrixb U m r && qmat_close eps (gram_cols q0 Qcplus Qcmult U r) (qeye r).

(* scale used for absolute tolerances: max(1, ||X||^2) *)
Definition qscale (X : dense Qc) : Qc := qmax q1 (qsumsq (ddata X)).

(* structural contract of a Tucker result for data X: factor n is I_n x r_n with orthonormal columns (r_n = core
   shape), and core = X x_n U_n^T for all n *)
Definition tucker_struct (eps : Qc) (X : dense Qc) (T : ttensor Qc) : bool :=
  let Us := tfactors T in
  let cs := dshape (tcore T) in
  Nat.eqb (length Us) (length (dshape X)) && Nat.eqb (length cs) (length (dshape X)) &&
  forallb (fun n => orthob eps (nth n Us []) (nth n (dshape X) 0%nat) (nth n cs 0%nat)) (seq 0 (length Us)) &&
  qdense_close (eps * qscale X) (tcore T) (qttm_all X (qtransposed Us)).

(* ||X - T||^2 <= tolsq * ||X||^2 (+ slack) *)
Definition relerr_ok (eps tolsq : Qc) (X : dense Qc) (T : ttensor Qc) : bool :=
  let R := qtfull_ttm T in
  nvec_eqb (dshape R) (dshape X) &&
  qleb (qdiffsq X R) (tolsq * qsumsq (ddata X) + eps * qscale X).

Definition ranks_are (T : ttensor Qc) (ranks : list nat) : bool :=
  nvec_eqb (map (fun U => ncols U) (tfactors T)) ranks && nvec_eqb (dshape (tcore T)) ranks.
(* mixed request: entries > 0 are met exactly, entries = 0 (automatic) give between 1 and the core size columns *)
Definition ranks_given (T : ttensor Qc) (ranks : list nat) : bool :=
  let got := map (fun U => ncols U) (tfactors T) in
  Nat.eqb (length got) (length ranks) && nvec_eqb (dshape (tcore T)) got &&
  forallb (fun p => match snd p with O => Nat.leb 1 (fst p) | r => Nat.eqb (fst p) r end) (combine got ranks).

(* eigen certificate for a symmetric matrix G (n x n): W orthonormal, G W = W diag(mu) within eps*scale, mu descending *)
Fixpoint qdesc (l : list Qc) : bool :=
  match l with x :: ((y :: _) as r) => qleb y x && qdesc r | _ => true end.
Definition eig_cert (eps : Qc) (G W : qmatrix) (mu : list Qc) : bool :=
  let n := length G in
  Nat.eqb (length mu) n && orthob eps W n n && qdesc mu &&
  qmat_close (eps * qmax q1 (qtrace G)) (mmul q0 Qcplus Qcmult G W n n)
             (map (fun row => map (fun p => fst p * snd p) (combine row mu)) W).

(* the tensor hosvd looks at when it treats the p-th mode of dimorder *)
Definition seen_at (sequential : bool) (X : dense Qc) (order : list nat) (Us : list qmatrix) (p : nat) : dense Qc :=
  if sequential then qttm_order X (firstn p order) (qtransposed Us) else X.

(* automatic rank of every mode = the model's rule applied to the certificate-checked spectrum of the Gram matrix
   of the (shrunk) tensor;  certs = one (W, mu) per position of dimorder *)
Definition auto_ranks_ok (eps tolsq : Qc) (sequential : bool) (X : dense Qc) (order : list nat)
    (T : ttensor Qc) (certs : list (qmatrix * list Qc)) : bool :=
  let d := length (dshape X) in
  let thresh := tolsq * qsumsq (ddata X) / Q2Qc (Z.of_nat d # 1) in
  Nat.eqb (length certs) d &&
  forallb (fun p =>
     let k := nth p order 0%nat in
     let G := qgram (seen_at sequential X order (tfactors T) p) k in
     let '(W, mu) := nth p certs ([], []) in
     eig_cert eps G W mu &&
     opt_eqb Nat.eqb (ncols_impl q0 Qcplus qltb 0 mu thresh) (Some (ncols (nth k (tfactors T) []))))
   (seq 0 d).

(* tucker_als: reported fit vs recomputed: (1 - fit)^2 ||X||^2 = ||X - T||^2 *)
Definition fit_ok (eps fit : Qc) (X : dense Qc) (T : ttensor Qc) : bool :=
  qabs_close (eps * qscale X) ((q1 - fit) * (q1 - fit) * qsumsq (ddata X)) (qdiffsq X (qtfull_ttm T)).
(* fit non-decreasing, compared on (1 - fit)^2 = |normX^2 - ||core||^2| / normX^2 (the quantity the code forms before the
   square root; every fit is <= 1) *)
Fixpoint nondecr (eps : Qc) (l : list Qc) : bool :=
  match l with
  | x :: ((y :: _) as r) => qleb y q1 && qleb x q1 && qleb ((q1 - y) * (q1 - y)) ((q1 - x) * (q1 - x) + eps) && nondecr eps r
  | _ => true
  end.

Definition eps9 : Qc := Q2Qc (1 # 1000000000).
Definition eps8 : Qc := Q2Qc (1 # 100000000).

(* tucker_als(init="nvecs"): the returned starting factor of mode n spans an invariant subspace of the mode-n Gram matrix of the DATA
   (G U = U (U^T G U) within eps * max(1, trace G)) with orthonormal columns — whatever dtype holds the data, whatever eigen-solver *)
Definition invariant_ok (eps : Qc) (X : dense Qc) (n : nat) (U : qmatrix) : bool :=
  let G := qgram X n in
  let I := length G in
  let r := ncols U in
  let GU := mmul q0 Qcplus Qcmult G U I r in
  let S := mmul q0 Qcplus Qcmult (mtrans q0 U I r) GU I r in
  orthob eps U I r && qmat_close (eps * qmax q1 (qtrace G)) GU (mmul q0 Qcplus Qcmult U S r r).

(* ---- the stop rule of tucker_als evaluated on the observed per-iteration fit trace of ONE run ----
   The transliterated loop of Model/C10Loop.v (tals_run: `for iteration in range(maxiters)`, `fitold = fit`, `fitchange = abs(fitold - fit)`,
   `if fitchange < stoptol: break`, returned `iters`/`fit`) is executed with oracles that REPLAY the observed trace: the factor state is
   the number of sweeps done so far, and the fit computed after sweep k is trace[k] (0 beyond the observed trace).  The run must end
   exactly where pyttb's did: same `iters`, same fit trace, same reported fit. *)
Definition qfchange_lt (fitold fit stoptol : Qc) : bool := qltb (qabs (fitold - fit)) stoptol.
Definition rp_project (U : list nat) (_ : nat) : nat := nth 0%nat U 0%nat.       (* "Utilde" = number of sweeps done *)
Definition rp_nvecs (Utilde _ _ : nat) : nat := S Utilde.                         (* the factor state after this sweep *)
Definition rp_core (Utilde : nat) (_ : list nat) (_ : nat) : nat := Utilde.        (* index k of this sweep *)
Definition rp_normres (trace : list Qc) (k : nat) : Qc := nth k trace q0.         (* carries the observed fit of sweep k *)
Definition rp_fit (x : Qc) : Qc := x.
Definition replay_tals (trace : list Qc) (stoptol : Qc) (maxiters : nat) :=
  tals_run nat nat nat Qc rp_project rp_nvecs rp_core (rp_normres trace) rp_fit
    qfchange_lt q0 [1%nat] [0%nat] stoptol 0%nat [0%nat] maxiters.
Definition stop_ok (stoptol : Qc) (maxiters iters : nat) (trace : list Qc) (fit : Qc) : bool :=
  match replay_tals trace stoptol maxiters with
  | Some r => Nat.eqb (tr_iters _ _ _ r) iters && Nat.eqb (length trace) (S iters) &&
              list_eqb Qc_eq_bool (tr_trace _ _ _ r) trace && Qc_eq_bool (tr_fit _ _ _ r) fit
  | None => false
  end.

(* hosvd(verbosity >= 1) prints ||X-T||/||X||: the printed number (6 significant digits) squared times ||X||^2 is the recomputed
   ||X - T||^2 (relative 3e-5: six printed digits; absolute eps * max(1,||X||^2)) *)
Definition relprint_ok (eps printed : Qc) (X : dense Qc) (T : ttensor Qc) : bool :=
  let lhs := printed * printed * qsumsq (ddata X) in
  let e := qdiffsq X (qtfull_ttm T) in
  qleb (qabs (lhs - e)) (Q2Qc (3 # 100000) * lhs + eps * qscale X).
