(* Props/C19W5S.v — C19 over the whole GENERATED method sptensor.permute(order) (Gen/GenSptensor4.v, regenerated from
   pyttb/sptensor.py on every run): on a well-formed sparse tensor (spt_wf: the constructor's own test holds and every subscript row
   is as long as the shape) the method raises exactly when guard_sorted_perm rejects = exactly when `order` is not a permutation of
   range(ndims); an order of boolean dtype is always refused (9c8fdd5).  Only statements, `exact`, Print Assumptions. *)
From Coq Require Import List ZArith Bool.
From PV Require Import Np.NpZ Np.NpZ3 Np.NpZ3d Np.NpZ4 Np.NpZ4b Gen.GenSptensor4 Model.C19Guards Proofs.C19W5S.
Import ListNotations.
Local Open Scope Z_scope.

Theorem C19_sptensor_permute_gen : forall (t : sptz) (order : vec), spt_wf t ->
  okres (sptensor_permute t order false) = guard_sorted_perm (spt_shape t) order /\
  okres (sptensor_permute t order false) = decide (pre_perm (spt_shape t) order) /\
  sptensor_permute t order true = Err.
Proof. exact sp_permute_gen_guard. Qed.
Print Assumptions C19_sptensor_permute_gen.

(* non-vacuity: a 2 x 3 x 4 tensor with two entries (non-symmetric); a permutation is answered, a repeated / out-of-range / short /
   negative order is refused *)
Definition c19_s234 : sptz := mkspt [[0; 2; 3]; [1; 0; 2]] [5; 7] [2; 3; 4].
Example C19_sptensor_permute_gen_ex :
  sptensor_permute c19_s234 [2; 0; 1] false = Ok (mkspt [[3; 0; 2]; [2; 1; 0]] [5; 7] [4; 2; 3]) /\
  sptensor_permute c19_s234 [2; 0; 0] false = Err /\ sptensor_permute c19_s234 [1; 2; 3] false = Err /\
  sptensor_permute c19_s234 [0; 1] false = Err /\ sptensor_permute c19_s234 [-1; 0; 1] false = Err /\
  sptensor_permute c19_s234 [2; 0; 1] true = Err.
Proof. repeat split; reflexivity. Qed.
Example C19_sptensor_permute_gen_wf : spt_wf c19_s234.
Proof. split; [reflexivity|]. intros row [<-|[<-|[]]]; reflexivity. Qed.
