(* Model/C05View2.v — wave 4: more transliterated return paths over the numpy view model of Model/C05View.v.

   New paths (the numpy calls that decide sharing, in source order; index arrays are not modelled):
     tenmat.to_tensor(copy)   tenmat.ctranspose   tenmat.double
     ttensor.__init__(copy)   ttensor.copy
     sptenmat.__init__(copy)  sptenmat.copy
   and a composition calculus for "alias of the argument in an untouched heap, or fresh" (aof_trans and the newer_ lemmas) that makes
   the verdict proofs short.  Verdict theorems hold for all heaps / arrays / parameters. *)
From Coq Require Import List Arith Bool Lia.
From PV Require Import Model.C05Store Model.C05View.
Import ListNotations.

Section Heap2.
Context {V : Type}.
Notation heapV := (@heap V).

(* r lives in a buffer that did not exist in h *)
Definition newer (h : heapV) (r : arr) : Prop := hnext h <= abuf r.

Lemma fresh_newer : forall (h h' : heapV) r, fresh_res h h' r -> newer h r.
Proof. intros h h' r [L _]. exact L. Qed.
Lemma newer_not_old : forall (h : heapV) r a, newer h r -> wf_arr h a -> abuf r <> abuf a.
Proof. intros h r a N W. unfold newer, wf_arr in *. lia. Qed.
Lemma newer_mono : forall (h0 h : heapV) r, ext h0 h -> newer h r -> newer h0 r.
Proof. intros h0 h r [L _] N. unfold newer in *. lia. Qed.
Lemma newer_verdict : forall (h : heapV) r opds, newer h r -> (forall a, In a opds -> wf_arr h a) -> aliases opds [r] = false.
Proof.
  intros h r opds N W. apply aliases_false_intro. intros r0 a [E|[]] Ha. subst r0. exact (newer_not_old h r a N (W a Ha)).
Qed.
Lemma newerl_verdict : forall (h : heapV) res opds, (forall r, In r res -> newer h r) -> (forall a, In a opds -> wf_arr h a) ->
  aliases opds res = false.
Proof.
  intros h res opds N W. apply aliases_false_intro. intros r a Hr Ha. exact (newer_not_old h r a (N r Hr) (W a Ha)).
Qed.

(* composition of alias-or-fresh steps *)
Lemma aof_trans : forall (h : heapV) a hr1 hr2,
  alias_or_fresh h a hr1 -> alias_or_fresh (fst hr1) (snd hr1) hr2 -> alias_or_fresh h a hr2.
Proof.
  intros h a hr1 hr2 [Ex1 C1] [Ex2 C2]. split; [exact (ext_trans _ _ _ Ex1 Ex2)|].
  destruct C1 as [[Eh1 Eb1]|Fr1]; destruct C2 as [[Eh2 Eb2]|Fr2].
  - left. split; [rewrite Eh2; exact Eh1 | rewrite Eb2; exact Eb1].
  - right. rewrite Eh1 in Fr2. exact Fr2.
  - right. rewrite Eh2. unfold fresh_res in *. rewrite Eb2. exact Fr1.
  - right. exact (fresh_mono _ _ _ _ Ex1 Fr2).
Qed.

Lemma aof_alias_same : forall (h : heapV) a b hr, abuf a = abuf b -> alias_or_fresh h a hr -> alias_or_fresh h b hr.
Proof. intros h a b hr E [Ex C]. split; [exact Ex|]. destruct C as [[Eh Eb]|Fr]; [left; split; [exact Eh | rewrite Eb; exact E] | right; exact Fr]. Qed.

Lemma aof_refl : forall (h : heapV) a, alias_or_fresh h a (h, a).
Proof. intros h a. split; [apply ext_refl|]. left. split; reflexivity. Qed.

Lemma fresh_aof : forall (h : heapV) a hr, ext h (fst hr) /\ fresh_res h (fst hr) (snd hr) -> alias_or_fresh h a hr.
Proof. intros h a hr [Ex Fr]. split; [exact Ex | right; exact Fr]. Qed.

(* a step that is alias-or-fresh w.r.t. an argument that is itself newer than h0 yields something newer than h0 *)
Lemma aof_newer : forall (h0 h : heapV) a hr, ext h0 h -> newer h0 a -> alias_or_fresh h a hr -> newer h0 (snd hr) /\ ext h0 (fst hr).
Proof.
  intros h0 h a hr Ex N [Ex2 C]. split; [|exact (ext_trans _ _ _ Ex Ex2)].
  destruct C as [[_ Eb]|Fr]; [unfold newer in *; rewrite Eb; exact N | exact (newer_mono _ _ _ Ex (fresh_newer _ _ _ Fr))].
Qed.

Lemma tensor_init_aof : forall (h : heapV) d s c, alias_or_fresh h d (tensor_init h d s c).
Proof.
  intros h d s c. unfold tensor_init. destruct c.
  - apply fresh_aof. destruct (tensor_init_copy_fresh h d s) as [Ex Fr]. unfold tensor_init in Ex, Fr. split; assumption.
  - apply (aof_trans h d (reshapeF h d s)); [apply reshapeF_aof | apply asfortran_aof].
Qed.

(* ---- tenmat.to_tensor(copy) ------------------------------------------------------------------------------------------
   data = self.data; copy -> data = self.data.copy(); data = np.reshape(data, shape[order], order="F");
   order.size > 1 -> data = to_memory_order(np.transpose(data, argsort(order)), "F"); return ttb.tensor(data, shape, copy=False) *)
Definition tenmat_to_tensor (h : heapV) (D : arr) (pshape inv tshape : list nat) (multi copy : bool) : heapV * arr :=
  let h1 := if copy then copyC h D else (h, D) in
  let h2 := reshapeF (fst h1) (snd h1) pshape in
  let h3 := if multi then asfortran (fst h2) (v_transpose (snd h2) inv) else h2 in
  tensor_init (fst h3) (snd h3) tshape false.

Lemma tenmat_to_tensor_tail_aof : forall (h1 : heapV) (a : arr) (pshape inv tshape : list nat) (multi : bool),
  alias_or_fresh h1 a
    (let h2 := reshapeF h1 a pshape in
     let h3 := if multi then asfortran (fst h2) (v_transpose (snd h2) inv) else h2 in
     tensor_init (fst h3) (snd h3) tshape false).
Proof.
  intros h1 a pshape inv tshape multi. cbv zeta.
  set (h2 := reshapeF h1 a pshape).
  assert (A2 : alias_or_fresh h1 a h2) by apply reshapeF_aof.
  set (h3 := if multi then asfortran (fst h2) (v_transpose (snd h2) inv) else h2).
  assert (A3 : alias_or_fresh h1 a h3).
  { unfold h3. destruct multi; [|exact A2]. apply (aof_trans h1 a h2); [exact A2|].
    apply (aof_alias_same (fst h2) (v_transpose (snd h2) inv) (snd h2)); [reflexivity | apply asfortran_aof]. }
  apply (aof_trans h1 a h3); [exact A3 | apply tensor_init_aof].
Qed.

Theorem tenmat_to_tensor_copy_verdict : forall h D pshape inv tshape multi, wf_arr h D ->
  aliases [D] [snd (tenmat_to_tensor h D pshape inv tshape multi true)] = false.
Proof.
  intros h D pshape inv tshape multi W. unfold tenmat_to_tensor. cbv zeta.
  destruct (copyC_fresh h D) as [Ex Fr].
  destruct (aof_newer h (fst (copyC h D)) (snd (copyC h D)) _ Ex (fresh_newer _ _ _ Fr)
              (tenmat_to_tensor_tail_aof (fst (copyC h D)) (snd (copyC h D)) pshape inv tshape multi)) as [N _].
  cbv zeta in N. apply (newer_verdict h); [exact N|]. intros a [E|[]]. subst a. exact W.
Qed.

(* copy=False: the result is a window onto the tenmat's buffer or lives in a new one - never in a third existing buffer *)
Theorem tenmat_to_tensor_nocopy_aof : forall h D pshape inv tshape multi,
  alias_or_fresh h D (tenmat_to_tensor h D pshape inv tshape multi false).
Proof. intros h D pshape inv tshape multi. unfold tenmat_to_tensor. exact (tenmat_to_tensor_tail_aof h D pshape inv tshape multi). Qed.

(* copy=False on F-contiguous data (the class invariant) whose un-permutation is the identity layout: shared *)
Theorem tenmat_to_tensor_nocopy_shared : forall h D pshape inv tshape multi, wf_arr h D ->
  is_fcontig D = true ->
  (multi = true -> is_fcontig (v_transpose (mkArr (abuf D) (aoff D) pshape (fstrides pshape)) inv) = true) ->
  list_eqb pshape (ashape D) = false ->
  aliases [D] [snd (tenmat_to_tensor h D pshape inv tshape multi false)] = true.
Proof.
  intros h D pshape inv tshape multi W F M NS. unfold tenmat_to_tensor. cbv zeta. cbn [fst snd].
  assert (R : reshapeF h D pshape = (h, mkArr (abuf D) (aoff D) pshape (fstrides pshape))).
  { unfold reshapeF. rewrite NS, F. reflexivity. }
  rewrite R. cbn [fst snd].
  set (d2 := mkArr (abuf D) (aoff D) pshape (fstrides pshape)) in *.
  assert (A3 : exists d3, (if multi then asfortran h (v_transpose d2 inv) else (h, d2)) = (h, d3) /\ abuf d3 = abuf D /\ is_fcontig d3 = true).
  { destruct multi.
    - exists (v_transpose d2 inv). unfold asfortran. rewrite (M eq_refl). repeat split.
    - exists d2. repeat split. apply fresh_is_fcontig. }
  destruct A3 as [d3 [E3 [B3 F3]]]. rewrite E3. cbn [fst snd].
  unfold tensor_init.
  assert (R2 : exists d4, reshapeF h d3 tshape = (h, d4) /\ abuf d4 = abuf D /\ is_fcontig d4 = true).
  { unfold reshapeF. destruct (list_eqb tshape (ashape d3)).
    - exists d3. repeat split; assumption.
    - rewrite F3. eexists. split; [reflexivity|]. split; [exact B3 | apply fresh_is_fcontig]. }
  destruct R2 as [d4 [E4 [B4 F4]]]. rewrite E4. cbn [fst snd]. unfold asfortran. rewrite F4. cbn [snd].
  apply (aliases_true_intro [D] [d4] d4 D); [left; reflexivity | left; reflexivity | exact B4].
Qed.

(* ---- tenmat.ctranspose: tenmat(self.data.conj().T, cindices, rindices, tshape, copy=True);  conj() is a ufunc: new array *)
Definition tenmat_ctranspose (h : heapV) (D : arr) : heapV * arr :=
  let hc := computed h (ashape D) [] in tenmat_init (fst hc) (v_transpose (snd hc) [1; 0]) true.

Theorem tenmat_ctranspose_verdict : forall h D, wf_arr h D -> aliases [D] [snd (tenmat_ctranspose h D)] = false.
Proof.
  intros h D W. unfold tenmat_ctranspose. cbv zeta. destruct (computed_fresh h (ashape D) []) as [Ex _].
  destruct (tenmat_init_copy_fresh (fst (computed h (ashape D) [])) (v_transpose (snd (computed h (ashape D) [])) [1; 0])) as [_ Fr].
  apply (newer_verdict h); [exact (newer_mono _ _ _ Ex (fresh_newer _ _ _ Fr))|]. intros a [E|[]]. subst a. exact W.
Qed.

(* ---- tenmat.double: to_memory_order(self.data, "F", copy=True).astype(np.float64)  (astype: a new array) *)
Definition tenmat_double (h : heapV) (D : arr) : heapV * arr :=
  let hm := to_memory_order_F h D true in copyF (fst hm) (snd hm).

Theorem tenmat_double_verdict : forall h D, wf_arr h D -> aliases [D] [snd (tenmat_double h D)] = false.
Proof.
  intros h D W. unfold tenmat_double. cbv zeta. destruct (to_memory_order_copy_fresh h D) as [Ex _].
  destruct (copyF_fresh (fst (to_memory_order_F h D true)) (snd (to_memory_order_F h D true))) as [_ Fr].
  apply (newer_verdict h); [exact (newer_mono _ _ _ Ex (fresh_newer _ _ _ Fr))|]. intros a [E|[]]. subst a. exact W.
Qed.

(* ---- ttb.ttensor(core, factors, copy): copy -> core.copy(), [to_memory_order(fm, "F", copy=True) ...];
        else core as given; factors as given iff ALL are F-ordered, otherwise every factor is copied ------------------- *)
Definition ttensor_init (h : heapV) (core : arr) (fms : list arr) (copy : bool) : heapV * list arr :=
  let hc := if copy then tensor_copy h core else (h, core) in
  let hf := if copy then map_heap (fun h a => to_memory_order_F h a true) (fst hc) fms
            else if forallb is_fcontig fms then (fst hc, fms)
            else map_heap (fun h a => to_memory_order_F h a true) (fst hc) fms in
  (fst hf, snd hc :: snd hf).
Definition ttensor_copy (h : heapV) (core : arr) (fms : list arr) : heapV * list arr := ttensor_init h core fms true.

Theorem ttensor_copy_verdict : forall h core fms, (forall a, In a (core :: fms) -> wf_arr h a) ->
  aliases (core :: fms) (snd (ttensor_copy h core fms)) = false.
Proof.
  intros h core fms W. unfold ttensor_copy, ttensor_init. cbv zeta. cbn [snd].
  destruct (tensor_init_copy_fresh h core (ashape core)) as [Ex Fr]. fold (tensor_copy h core) in Ex, Fr.
  destruct (map_heap_fresh (fun h a => to_memory_order_F h a true) to_memory_order_copy_fresh fms (fst (tensor_copy h core))) as [_ Fr2].
  apply (newerl_verdict h); [|exact W]. intros r [E|Hr].
  - subst r. exact (fresh_newer _ _ _ Fr).
  - exact (newer_mono _ _ _ Ex (fresh_newer _ _ _ (Fr2 r Hr))).
Qed.

(* no-copy construction: the core is always the caller's; the factors are the caller's iff all of them are F-contiguous *)
Theorem ttensor_init_nocopy_verdict : forall h core fms, (forall a, In a (core :: fms) -> wf_arr h a) -> fms <> [] ->
  aliases [core] [hd core (snd (ttensor_init h core fms false))] = true /\
  aliases fms (tl (snd (ttensor_init h core fms false))) = forallb is_fcontig fms.
Proof.
  intros h core fms W NE. unfold ttensor_init. cbv zeta. cbn [fst snd hd tl]. split.
  - apply (aliases_true_intro [core] [core] core core); [left; reflexivity | left; reflexivity | reflexivity].
  - destruct (forallb is_fcontig fms) eqn:F.
    + cbn [snd]. destruct fms as [|a t]; [contradiction|]. apply (aliases_true_intro _ _ a a); [left; reflexivity | left; reflexivity | reflexivity].
    + destruct (map_heap_fresh (fun h a => to_memory_order_F h a true) to_memory_order_copy_fresh fms h) as [_ Fr].
      apply (newerl_verdict h); [intros r Hr; exact (fresh_newer _ _ _ (Fr r Hr)) | intros a Ha; apply W; right; exact Ha].
Qed.

(* ---- ttb.sptenmat(subs, vals, rdims, cdims, tshape, copy): copy -> np.unique / accumarray results, then fancy-indexed by the
        nonzero positions (all new arrays); else the arrays as given;  sptenmat.copy = sptenmat(..., copy=True) ------------ *)
Definition sptenmat_init (h : heapV) (subs vals : arr) (copy : bool) : heapV * list arr :=
  if copy then
    let hs := computed h (ashape subs) [] in let hv := computed (fst hs) (ashape vals) [] in
    let hs2 := fancy (fst hv) (snd hs) (ashape subs) [] in let hv2 := fancy (fst hs2) (snd hv) (ashape vals) [] in
    (fst hv2, [snd hs2; snd hv2])
  else (h, [subs; vals]).
Definition sptenmat_copy (h : heapV) (subs vals : arr) : heapV * list arr := sptenmat_init h subs vals true.

Theorem sptenmat_copy_verdict : forall h subs vals, wf_arr h subs -> wf_arr h vals ->
  aliases [subs; vals] (snd (sptenmat_copy h subs vals)) = false.
Proof.
  intros h subs vals Ws Wv. unfold sptenmat_copy, sptenmat_init. cbv zeta. cbn [snd].
  set (hs := computed h (ashape subs) []). destruct (computed_fresh h (ashape subs) []) as [E1 _]. fold hs in E1.
  set (hv := computed (fst hs) (ashape vals) []). destruct (computed_fresh (fst hs) (ashape vals) []) as [E2 _]. fold hv in E2.
  set (hs2 := fancy (fst hv) (snd hs) (ashape subs) []). destruct (fancy_fresh (fst hv) (snd hs) (ashape subs) []) as [E3 F3]. fold hs2 in E3, F3.
  destruct (fancy_fresh (fst hs2) (snd hv) (ashape vals) []) as [_ F4].
  apply (newerl_verdict h).
  - intros r [E|[E|[]]]; subst r.
    + exact (newer_mono _ _ _ (ext_trans _ _ _ E1 E2) (fresh_newer _ _ _ F3)).
    + exact (newer_mono _ _ _ (ext_trans _ _ _ (ext_trans _ _ _ E1 E2) E3) (fresh_newer _ _ _ F4)).
  - intros a [E|[E|[]]]; subst a; assumption.
Qed.

Theorem sptenmat_init_nocopy_verdict : forall h subs vals,
  aliases [subs; vals] (snd (sptenmat_init h subs vals false)) = true.
Proof.
  intros h subs vals. unfold sptenmat_init. cbn [snd].
  apply (aliases_true_intro _ _ subs subs); [left; reflexivity | left; reflexivity | reflexivity].
Qed.
End Heap2.
