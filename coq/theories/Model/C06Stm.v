(* Model/C06Stm.v — sptenmat.__setitem__ (pyttb/sptenmat.py) on the 2-way coordinate list behind a sparse matricized tensor:
   specification on the denoted matrix, transliteration of pyttb's loop (overwrite stored entries in place, collect the
   absent targets, append + sort by (row, column) when something was collected, drop explicit zeros), and the boolean
   checkers of the C06 history cases (raw observations of pyttb after every step).  Definitions only; proofs in
   Proofs/C06Stm.v. *)
From Coq Require Import List ZArith Bool Arith.
From PV Require Import Base.Index Np.Array Model.Sparse Model.Harness Model.C01Conv Model.C06Ops.
Import ListNotations.
Local Open Scope nat_scope.

Section StmSet.
Context {V : Type} (v0 : V) (isz : V -> bool).

(* ---- specification: the targets (subscript, value) are written one after the other (a later write wins) ---- *)
Definition assign_den (f : idx -> V) (t : list (idx * V)) : idx -> V := fun i => last_match i t (f i).

(* ---- transliteration ---- *)
(* `self.vals[indx] = value[k]` where indx = the stored rows equal to j *)
Definition overwrite (j : idx) (v : V) (subs : list idx) (vals : list V) : list V :=
  map (fun e => if idx_eqb (fst e) j then v else snd e) (combine subs vals).
(* the double loop over (column, row) with k counting the targets: `subs` is not changed inside the loop *)
Fixpoint set_loop (subs : list idx) (vals : list V) (t : list (idx * V)) (new : list (idx * V)) : list V * list (idx * V) :=
  match t with
  | [] => (vals, new)
  | (j, v) :: t' => if existsb (idx_eqb j) subs then set_loop subs (overwrite j v subs vals) t' new
                    else set_loop subs vals t' (new ++ [(j, v)])
  end.
(* np.lexsort(subs.transpose()[::-1]): rows ordered by (row index, column index); stable insertion sort *)
Fixpoint idx_leb (i j : idx) : bool :=
  match i, j with
  | [], _ => true
  | _ :: _, [] => false
  | x :: i', y :: j' => if x <? y then true else if y <? x then false else idx_leb i' j'
  end.
Fixpoint ins_entry (e : idx * V) (l : list (idx * V)) : list (idx * V) :=
  match l with
  | [] => [e]
  | e' :: r => if idx_leb (fst e) (fst e') then e :: l else e' :: ins_entry e r
  end.
Definition sort_entries (l : list (idx * V)) : list (idx * V) := fold_right ins_entry [] l.
Definition drop_zeros (l : list (idx * V)) : list (idx * V) := filter (fun e => negb (isz (snd e))) l.

Definition impl_stm_setitem (S : sparse V) (t : list (idx * V)) : sparse V :=
  let '(vals1, new) := set_loop (ssubs S) (svals S) t [] in
  let es := combine (ssubs S) vals1 in
  let es2 := match new with [] => es | _ => sort_entries (es ++ new) end in
  let es3 := drop_zeros es2 in
  mkSp (sshape S) (map fst es3) (map snd es3).
End StmSet.

(* ---- checkers (Z) ---- *)
(* X is well-formed, has shape s and denotes g on every cell of s *)
Definition sp_den_is (s : shape) (g : idx -> Z) (X : sparse Z) : bool :=
  wf_spb zisz X && nvec_eqb (sshape X) s &&
  forallb (fun k => (zden_sp X (ind2sub s k) =? g (ind2sub s k))%Z) (seq 0 (size s)).

(* one observation = (the sptenmat read as a 2-way coordinate list, to_sptensor() of it).  After every step:
   the matrix is well-formed and denotes the assigned matrix; it is what the transliteration computes from the PREVIOUS
   observation (up to stored order); the tensor converted back is well-formed and is the model's conversion of the observed
   matrix (up to stored order). *)
Fixpoint hist_ok (r c : list nat) (ts ms : shape) (f : idx -> Z) (prev : option (sparse Z))
                 (steps : list (list (idx * Z))) (obs : list (sparse Z * sparse Z)) : bool :=
  match steps, obs with
  | [], [] => true
  | t :: steps', (X, B) :: obs' =>
      let g := assign_den f t in
      sp_den_is ms g X &&
      match prev with None => true | Some P => sp_perm_eqb (impl_stm_setitem zisz P t) X end &&
      wf_spb zisz B && sp_perm_eqb (sptenmat_to_sptensor (mkSTM (ssubs X) (svals X) r c ts)) B &&
      hist_ok r c ts ms g (Some X) steps' obs'
  | _, _ => false
  end.

(* the history starts from A.to_sptenmat(r, c) (first observation, empty target list) *)
Definition stm_hist_ok (A : sparse Z) (r c : list nat) (steps : list (list (idx * Z))) (obs : list (sparse Z * sparse Z)) : bool :=
  match to_sptenmat A r c with
  | None => false
  | Some M => hist_ok r c (sshape A) (stm_shape M) (zden_sp (stm_sp M)) None ([] :: steps) obs
  end.

(* generators: a returned sparse tensor is well-formed, has the requested shape and (when the values are pinned) denotes g *)
Definition gen_wf_ok (s : shape) (X : sparse Z) : bool := wf_spb zisz X && nvec_eqb (sshape X) s.
(* super-diagonal of the given elements, zero elsewhere *)
Definition diag_den (els : list Z) (i : idx) : Z :=
  match i with
  | [] => 0%Z
  | k :: r => if forallb (Nat.eqb k) r then nth k els 0%Z else 0%Z
  end.
