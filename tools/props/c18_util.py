"""c18_util — runners, observation extractors, Qc literal writers and the pure-Python brute-force evaluator for C18.

Algorithms (names used in case ops):
  cp_als, cp_apr_mu, cp_apr_pdnr, cp_apr_pqnr (Kruskal results), hosvd, tucker_als (Tucker results),
  gcp (gcp_opt with the LBFGSB optimizer, Kruskal result).

A *run description* is a JSON-able dict:
  {"alg", "shape", "data" (F-order ints) | "subs"/"vals" (sparse holder), "sparse": bool, "rank": int | [ints],
   "init": None | {"den": int, "factors": [[[int numerators]]]}, "opts": {...}, "printitn": int, "seed": None | int}
`run(ttb, np, rd)` executes it on pyttb and returns raw observations (exact rationals)."""
import contextlib
import io
import itertools
import math
from fractions import Fraction

import tgen
from vcheck import gnlist, gq

KRUSKAL = ("cp_als", "cp_apr_mu", "cp_apr_pdnr", "cp_apr_pqnr", "gcp")
TUCKER = ("hosvd", "tucker_als")
ALGS = KRUSKAL + TUCKER
ROUND_BITS = None        # None = literals are the exact doubles; an int k rounds every observed float to k significant bits


# ------------------------------------------------------------------------------------------ exact numbers
def ex(x):
    """float -> exact int/Fraction (optionally rounded to ROUND_BITS significant bits); non-finite -> str"""
    x = float(x)
    if x != x or x in (float("inf"), float("-inf")):
        return tgen.exact(x)
    if ROUND_BITS is not None and x != 0.0:
        m, e = math.frexp(x)
        x = math.ldexp(round(m * (1 << ROUND_BITS)) / (1 << ROUND_BITS), e)
    return tgen.exact(x)


def fr(v):
    """observation value -> Fraction (raises on non-finite)"""
    if isinstance(v, str):
        raise ValueError("non-finite value " + v)
    return Fraction(v)


def finite(vals):
    return all(not isinstance(v, str) for v in vals)


def obs_mat(np, m):
    a = np.asarray(m, dtype=float)
    return [[ex(x) for x in row] for row in a.reshape((a.shape[0], -1))]


def obs_k(np, K):
    return {"kind": "k", "weights": [ex(x) for x in np.asarray(K.weights).ravel()],
            "factors": [obs_mat(np, f) for f in K.factor_matrices]}


def obs_t(np, T):
    core = np.asarray(T.core.data, dtype=float)
    return {"kind": "t", "core_shape": [int(d) for d in core.shape],
            "core": [ex(x) for x in np.ravel(core, order="F")],
            "factors": [obs_mat(np, f) for f in T.factor_matrices]}


def model_values(m):
    """every number stored in an observed model, flattened"""
    out = list(m.get("weights", [])) + list(m.get("core", []))
    for f in m["factors"]:
        for row in f:
            out += row
    return out


# ------------------------------------------------------------------------------------------ running pyttb
def lay(np, a, layout):
    """the same values in another memory layout: None = as built, "F" / "C" = contiguous in that order,
    "view" = a non-contiguous strided view (every second element of a larger array along every axis)"""
    if layout is None or a.ndim == 0 or a.size == 0:
        return a
    if layout == "F":
        return np.asfortranarray(a)
    if layout == "C":
        return np.ascontiguousarray(a)
    if layout == "view":
        big = np.full(tuple(2 * d + 1 for d in a.shape), 7.0 if a.dtype.kind == "f" else 7, dtype=a.dtype)
        sl = tuple(slice(1, None, 2) for _ in a.shape)
        big[sl] = a
        return big[sl]
    raise ValueError(layout)


def mk_data(ttb, np, rd):
    layout = rd.get("layout")
    dt = rd.get("dtype")
    if dt is not None:
        # wave 5: the holder stores the (integer / 0-1) data in that numpy dtype instead of float64 - sptensor keeps the dtype of the
        # values it is given (count data built from integer arrays), tensor keeps the dtype of the array
        npdt = {"int64": np.int64, "int32": np.int32, "bool": np.bool_, "float32": np.float32, "uint8": np.uint8, "int8": np.int8}[dt]
        if rd.get("sparse"):
            s = np.array(rd["subs"], dtype=int).reshape((len(rd["subs"]), len(rd["shape"])))
            v = np.array(rd["vals"]).astype(npdt).reshape((len(rd["vals"]), 1))
            return ttb.sptensor(s, v, tuple(rd["shape"]), copy=True)
        return ttb.tensor(np.array(rd["data"]).astype(npdt).reshape(tuple(rd["shape"]), order="F"), tuple(rd["shape"]), copy=True)
    if rd.get("sparse"):
        if layout is None:
            return tgen.mk_sptensor(ttb, np, rd["shape"], rd["subs"], rd["vals"])
        s = lay(np, np.array(rd["subs"], dtype=int).reshape((len(rd["subs"]), len(rd["shape"]))), layout)
        v = lay(np, np.array(rd["vals"], dtype=float).reshape((len(rd["vals"]), 1)), layout)
        return ttb.sptensor(s, v, tuple(rd["shape"]), copy=True)
    if layout is None:
        return tgen.mk_tensor(ttb, np, rd["shape"], rd["data"])
    return ttb.tensor(lay(np, tgen.np_dense(np, rd["shape"], rd["data"]), layout), tuple(rd["shape"]), copy=True)


def init_mats(np, init, layout=None):
    if init.get("exact"):
        # exact values (observed start of another run): [[num, den]] pairs, every one a double
        return [lay(np, np.array([[float(Fraction(x[0], x[1])) for x in row] for row in F], dtype=float).reshape((len(F), -1)), layout)
                for F in init["factors"]]
    return [lay(np, np.array(F, dtype=float) / float(init["den"]), layout) for F in init["factors"]]


def exact_init(obs_init, fill_rng=None, shape=None, ranks=None):
    """an observed start (obs_k / list-of-matrices observation) as an explicit `init` description with exact values;
    a missing matrix (tucker_als leaves the first mode of the sweep out) is filled with arbitrary numbers from fill_rng"""
    def pr(x):
        f = fr(x)
        return [f.numerator, f.denominator]
    fs = []
    for n, F in enumerate(obs_init["factors"]):
        if F is None:
            F = [[Fraction(fill_rng.randint(1, 8), 8) for _ in range(ranks[n])] for _ in range(shape[n])]
        fs.append([[pr(x) for x in row] for row in F])
    out = {"exact": True, "factors": fs}
    if obs_init.get("weights") is not None:
        out["weights"] = [pr(w) for w in obs_init["weights"]]
    return out


def init_arg(ttb, np, rd, kind):
    """the starting guess as pyttb wants it: kind "k" = ktensor (cp_*, gcp; rd["init_as"] == "list": plain list, gcp only),
    kind "l" = list of matrices (tucker_als); without rd["init"]: the string rd["init_str"] (default "random")"""
    init = rd.get("init")
    if not init:
        return rd.get("init_str") or "random"
    mats = [m.copy() if rd.get("layout") is None else m for m in init_mats(np, init, rd.get("layout"))]
    if kind == "l" or rd.get("init_as") == "list":
        return mats
    if init.get("weights") is not None:
        return ttb.ktensor(mats, np.array([float(Fraction(w[0], w[1])) for w in init["weights"]], dtype=float))
    return ttb.ktensor(mats)


@contextlib.contextmanager
def _quiet_logging():
    import logging
    prev = logging.root.manager.disable
    logging.disable(logging.CRITICAL)
    try:
        yield
    finally:
        logging.disable(prev)


def run(ttb, np, rd):
    """one real pyttb run; stdout captured and discarded; fresh copies of every input"""
    alg = rd["alg"]
    o = dict(rd["opts"])
    X = mk_data(ttb, np, rd)
    if rd.get("seed") is not None:
        np.random.seed(int(rd["seed"]))
    init = rd.get("init")
    pr = int(rd.get("printitn", 0))
    buf = io.StringIO()
    res = {}
    with contextlib.redirect_stdout(buf), _quiet_logging():
        if alg == "cp_als":
            ini = init_arg(ttb, np, rd, "k")
            M, M0, out = ttb.cp_als(X, int(rd["rank"]), stoptol=o.get("stoptol", 1e-4), maxiters=o["maxiters"],
                                    dimorder=list(o["dimorder"]) if o.get("dimorder") is not None else None,
                                    optdims=list(o["optdims"]) if o.get("optdims") is not None else None,
                                    init=ini, printitn=pr, fixsigns=o.get("fixsigns", True))
            res = {"model": obs_k(np, M), "init": obs_k(np, M0), "fit": ex(out["fit"]), "iters": int(out["iters"]),
                   "normresidual": ex(out["normresidual"])}
        elif alg.startswith("cp_apr_"):
            ini = init_arg(ttb, np, rd, "k")
            kw = {}
            for k in ("maxinneriters", "kappa", "kappatol", "epsActive", "mu0", "precompinds", "inexact", "lbfgsMem", "epsDivZero"):
                if k in o:
                    kw[k] = o[k]
            if rd.get("printinner") is not None:     # wave 4: the second verbosity setting of cp_apr (inner status lines, line-search warnings)
                kw["printinneritn"] = int(rd["printinner"])
            M, M0, out = ttb.cp_apr(X, int(rd["rank"]), algorithm=alg[len("cp_apr_"):], stoptol=o.get("stoptol", 1e-4),
                                    maxiters=o["maxiters"], init=ini, printitn=pr, **kw)
            kkt = [ex(x) for x in np.asarray(out["kktViolations"]).ravel()]
            res = {"model": obs_k(np, M), "init": obs_k(np, M0), "fit": ex(out["obj"]), "iters": len(kkt), "kkt": kkt,
                   "inner": [int(x) for x in np.asarray(out["nInnerIters"]).ravel()]}
        elif alg == "hosvd":
            ranks = np.array(o["ranks"], dtype=int) if o.get("ranks") is not None else None
            T = ttb.hosvd(X, o["tol"], verbosity=pr,
                          dimorder=list(o["dimorder"]) if o.get("dimorder") is not None else None,
                          sequential=o.get("sequential", True), ranks=ranks)
            res = {"model": obs_t(np, T), "iters": 0}
        elif alg == "tucker_als":
            ini = init_arg(ttb, np, rd, "l")
            T, U0, out = ttb.tucker_als(X, list(rd["rank"]), stoptol=o.get("stoptol", 1e-4), maxiters=o["maxiters"],
                                        dimorder=list(o["dimorder"]) if o.get("dimorder") is not None else None,
                                        init=ini, printitn=pr)
            res = {"model": obs_t(np, T), "fit": ex(out["fit"]), "iters": int(out["iters"]),
                   "normresidual": ex(out["normresidual"]),
                   "init": {"kind": "l", "factors": [None if u is None else obs_mat(np, u) for u in U0]}}
        elif alg == "gcp":
            from pyttb.gcp.handles import Objectives
            from pyttb.gcp.optimizers import LBFGSB
            ini = init_arg(ttb, np, rd, "k")
            opt = LBFGSB(maxiter=int(o["maxiters"]), **({"m": o["m"]} if "m" in o else {}))
            obj = {"gaussian": Objectives.GAUSSIAN, "poisson": Objectives.POISSON}[o.get("objective", "gaussian")]
            if rd.get("reuse_opt"):
                # history: the SAME optimizer object (same constructor options) has already solved another problem of a different
                # size; options are the constructor's, so the second solve must behave like one with a fresh object
                wshape = (12, 11, 10)            # much larger than any generated problem (<= 36 cells)
                nw = int(np.prod(wshape))
                Xw = ttb.tensor((np.arange(1.0, nw + 1.0) % 7.0).reshape(wshape, order="F"))
                ttb.gcp_opt(Xw, 1, obj, opt, init=ttb.ktensor([np.full((d, 1), 0.5) for d in wshape]), printitn=0)
                if rd.get("seed") is not None:
                    np.random.seed(int(rd["seed"]))
            M, M0, info = ttb.gcp_opt(X, int(rd["rank"]), obj, opt, init=ini, printitn=pr)
            res = {"model": obs_k(np, M), "init": obs_k(np, M0), "fit": ex(info["final_f"]), "iters": int(info["nit"]),
                   "funcalls": int(info["funcalls"]), "warnflag": int(info["warnflag"])}
        else:
            raise ValueError(alg)
    res["printed"] = len(buf.getvalue())
    return res


# ------------------------------------------------------------------------------------------ Qc literals
def gqmat(m):
    if not m:
        return "(@nil (list Qc))"
    return "[" + "; ".join(("(@nil Qc)" if not r else "[" + "; ".join(gq(x) for x in r) + "]") for r in m) + "]"


def gqvec(l):
    return "(@nil Qc)" if not l else "[" + "; ".join(gq(x) for x in l) + "]"


def gmodel(m):
    fs = "[" + "; ".join(gqmat(f) for f in m["factors"]) + "]"
    if m["kind"] == "k":
        return f"(mkK {gqvec(m['weights'])} {fs})"
    return f"(mkT (mkDense {gnlist(m['core_shape'])} {gqvec(m['core'])}) {fs})"


# ------------------------------------------------------------------------------------------ brute force (pure Python)
def den_model(m, i):
    """exact denotation of an observed model at subscript i (Fractions, plain loops)"""
    if m["kind"] == "k":
        tot = Fraction(0)
        for r, w in enumerate(m["weights"]):
            t = fr(w)
            for n, x in enumerate(i):
                t *= fr(m["factors"][n][x][r])
            tot += t
        return tot
    cs = m["core_shape"]
    tot = Fraction(0)
    for pos, j in enumerate(tgen.all_subs(cs)):
        t = fr(m["core"][pos])
        if t == 0:
            continue
        for n, x in enumerate(i):
            t *= fr(m["factors"][n][x][j[n]])
        tot += t
    return tot


def model_shape(m):
    return [len(f) for f in m["factors"]]


def rel_mismatch(shape, c, p, m1, m2, tol):
    """None if den(m2)(pick p i) is within tol*max(1,max|c den(m1)|) of c*den(m1)(i) for all i; else a description"""
    if model_shape(m1) != list(shape) or model_shape(m2) != [shape[k] for k in p]:
        return f"model shapes {model_shape(m1)} / {model_shape(m2)} do not match data shape {shape} / permutation {p}"
    subs = tgen.all_subs(shape)
    l1 = [Fraction(c) * den_model(m1, i) for i in subs]
    l2 = [den_model(m2, [i[k] for k in p]) for i in subs]
    sc = max([Fraction(1)] + [abs(v) for v in l1])
    worst = max(range(len(subs)), key=lambda k: abs(l2[k] - l1[k])) if subs else None
    if worst is not None and abs(l2[worst] - l1[worst]) > Fraction(tol) * sc:
        return (f"models differ at subscript {subs[worst]}: base*c = {float(l1[worst])!r}, transformed = {float(l2[worst])!r} "
                f"(|diff| = {float(abs(l2[worst] - l1[worst])):.3e}, scale {float(sc):.3e})")
    return None


def scalar_mismatch(a, b, tol):
    a, b = fr(a), fr(b)
    if abs(a - b) > Fraction(tol) * max(Fraction(1), abs(b)):
        return f"{float(a)!r} vs {float(b)!r}"
    return None


def perms(n):
    return [list(p) for p in itertools.permutations(range(n))]
