(* Proofs/C11GenMu.v — C11 over the GENERATED multiplicative-update loop (Gen/GenCpAprMu.v, regenerated from /repo on every run) with the
   kernels instantiated by the executable C11 operations (Model/C11GenMu.v gen_mu).  Proved directly by induction over the generated
   loops cp_apr_mu_loop4 (inner iterations), loop3 (modes), loop2 (outer iterations), for EVERY clock, time limit, tolerance,
   kappa >= 0, maxiters, maxinneriters, shape, rank:  whenever the generated function returns, weights and factors of the returned
   model are non-negative, every reported KKT violation is non-negative, and (w5-skel's mu_bookkeeping) there are between 1 and
   maxiters of them, one per outer iteration, as many as nInnerIters / nViolations / times entries. *)
From Coq Require Import String List Arith Lia Bool ZArith.
From PV Require Import Base.Index Base.Sum Np.Array Model.Sparse Model.Repr Model.C14Nvecs Model.C11Apr Model.W4SPrelude Gen.GenCpAprMu
                       Model.C11GenMu Proofs.C11Proofs Proofs.W4SCpAprMu.
Import ListNotations.

Lemma sk_set_Forall {A} (P : A -> Prop) (l l' : list A) i v : sk_set l i v = Some l' -> Forall P l -> P v -> Forall P l'.
Proof.
  unfold sk_set. destruct (i <? length l); [|discriminate]. intros H Hl Hv.
  assert (H' : l' = firstn i l ++ v :: skipn (S i) l) by congruence. subst l'.
  rewrite Forall_forall in *. intros x Hx. apply in_app_or in Hx. destruct Hx as [Hx|[Hx|Hx]].
  - apply Hl. eapply in_firstn_in; eauto.
  - now subst.
  - apply Hl. eapply in_skipn_in'; eauto.
Qed.

Lemma sk_set_firstn {A} (l l' : list A) i v : sk_set l i v = Some l' -> firstn (S i) l' = firstn i l ++ [v].
Proof.
  unfold sk_set. destruct (i <? length l) eqn:E; [|discriminate]. apply Nat.ltb_lt in E. intros H.
  assert (H' : l' = firstn i l ++ v :: skipn (S i) l) by congruence. subst l'.
  assert (L : length (firstn i l) = i) by (rewrite firstn_length; lia).
  replace (S i) with (length (firstn i l) + 1) at 1 by lia.
  rewrite firstn_app_2. reflexivity.
Qed.

(* a later assignment l[j] = v (j >= i) keeps the first i entries *)
Lemma sk_set_firstn_keep {A} (l l' : list A) i j v : sk_set l j v = Some l' -> i <= j -> firstn i l' = firstn i l.
Proof.
  unfold sk_set. destruct (j <? length l) eqn:E; [|discriminate]. apply Nat.ltb_lt in E. intros H Hij.
  assert (H' : l' = firstn j l ++ v :: skipn (S j) l) by congruence. subst l'.
  rewrite firstn_app, firstn_firstn, firstn_length. replace (i - Nat.min j (length l)) with 0 by lia.
  cbn [firstn]. rewrite app_nil_r. f_equal. lia.
Qed.

Section G.
Variable V : Type.
Variables (v0 v1 : V) (vadd vmul vsub : V -> V -> V).
Variable nn : V -> Prop.
Hypothesis nn0 : nn v0.
Hypothesis nn1 : nn v1.
Hypothesis nn_add : forall a b, nn a -> nn b -> nn (vadd a b).
Hypothesis nn_mul : forall a b, nn a -> nn b -> nn (vmul a b).
Variable vdivmax_e : V -> V -> V -> V.
Variables (vscale : V -> V -> V) (vabs : V -> V) (vmin vmax : V -> V -> V) (vgt0 : V -> bool) (vltb : V -> V -> bool).
Hypothesis divmax_nn : forall eps x v, nn x -> nn v -> nn (vdivmax_e eps x v).
Hypothesis scale_nn : forall t a, nn t -> nn a -> nn (vscale t a).
Hypothesis abs_nn : forall x, nn (vabs x).
Hypothesis max_nn : forall a b, nn a -> nn b -> nn (vmax a b).
Variable W : Type.
Variable clock : W -> W * V.
Variable vloglik : dense V -> ktensor V -> V.

Notation nnl := (Forall nn).
Notation nnm := (Forall (Forall nn)).
Notation matrix := (list (list V)).
Notation mg := (mget v0).

Definition nnK (M : ktensor V) : Prop := nnl (kweights M) /\ Forall nnm (kfactors M).

Let x_mget := nn_mget V v0 nn nn0.
Let x_nth := nn_nth V v0 nn nn0.
Let x_Mnth := nnM_nth V nn.
Let x_sum {A} := @nn_sum_over V v0 vadd nn nn0 nn_add A.
Let x_kprod := nn_kprod V v0 v1 vmul nn nn0 nn1 nn_mul.
Let x_mtab := nnm_mtab V nn.
Let x_kkt := nn_kkt V v0 v1 vsub nn nn0 vabs vmin vmax abs_nn max_nn.
Let x_maxlist := nn_maxlist V v0 nn nn0 vmax max_nn.

Notation g_normalize_mode := (gk_normalize_mode v0 vadd vmul vscale vabs).
Notation g_normalize := (gk_normalize v0 vadd vmul vscale vabs).
Notation g_zeros := (gk_zeros v0).
Notation g_mask := (gk_mask v0 vgt0 vltb).
Notation g_add_kappa := (gk_add_kappa v0 vadd).
Notation g_redistribute := (gk_redistribute v0 v1 vmul).
Notation g_pi := (@gk_pi V).
Notation g_phi := (gk_phi v0 v1 vadd vmul vdivmax_e W).
Notation g_kkt := (gk_kkt v0 v1 vsub vabs vmin vmax).
Notation g_mult := (gk_mult v0 vmul).
Notation g_sort := (gk_normalize_sort v0 vadd vmul vscale vabs vltb).
Notation g_le := (g_leF vltb).
Notation g_max := (maxlist v0 vmax).

Notation gloop4 := (GenCpAprMu.cp_apr_mu_loop4 W V matrix (ktensor V) (dense V) (list matrix) g_le g_phi g_kkt g_mult).
Notation gloop3 := (GenCpAprMu.cp_apr_mu_loop3 W V matrix (list (list bool)) (ktensor V) (dense V) (list matrix) g_le g_mask gk_any g_add_kappa
  g_redistribute g_pi g_phi g_kkt g_mult g_normalize_mode).
Notation gloop2 := (GenCpAprMu.cp_apr_mu_loop2 W V matrix (list (list bool)) (ktensor V) (dense V) (list matrix) g_le vsub clock g_mask gk_any
  g_add_kappa g_redistribute g_pi g_phi g_kkt g_mult g_normalize_mode g_max).
Notation gloop1 := (GenCpAprMu.cp_apr_mu_loop1 matrix (ktensor V) g_zeros).
Notation gmu := (gen_mu v0 v1 vadd vmul vsub vdivmax_e vscale vabs vmin vmax vgt0 vltb W clock vloglik).

Lemma nnK_pack M : nnK M -> inv V nn (pack M [] [] true).
Proof. intros [H1 H2]. repeat split; cbn; auto. Qed.

Lemma nnK_redistribute M n : nnK M -> nnK (g_redistribute M n).
Proof.
  intros H. apply nnK_pack in H. apply (inv_redistribute V v0 v1 vmul nn nn0 nn1 nn_mul n) in H.
  destruct H as (H1 & H2 & _). split; assumption.
Qed.

Lemma nnK_normalize_mode M n nt : nnK M -> nnK (g_normalize_mode M n nt).
Proof.
  intros H. apply nnK_pack in H. apply (inv_normalize V v0 vadd vmul nn nn0 nn_add nn_mul vscale vabs scale_nn abs_nn n) in H.
  destruct H as (H1 & H2 & _). split; assumption.
Qed.

Lemma nnK_normalize M nt : nnK M -> nnK (g_normalize M nt).
Proof.
  unfold gk_normalize. generalize (seq 0 (length (kfactors M))). intros l. revert M.
  induction l as [|n l IH]; intros M H; cbn [fold_left]; auto. apply IH, nnK_normalize_mode, H.
Qed.

Lemma nnK_fac M n : nnK M -> nnm (kfac M n).
Proof. intros [_ H]. unfold kfac. now apply x_Mnth. Qed.

Lemma nnK_add_kappa M n Vm kappa : nn kappa -> nnK M -> nnK (g_add_kappa M n Vm kappa).
Proof.
  intros Hk H. pose proof (nnK_fac M n H) as HA. destruct H as [H1 H2]. split; cbn; auto.
  apply Forall_upd; [assumption|]. apply x_mtab. intros a r.
  assert (Hx : nn (mg (kfac M n) a r)) by (apply x_mget; auto).
  destruct (nth r (nth a Vm []) false); auto.
Qed.

Lemma nnK_mult M n Phi : nnK M -> Forall nnm Phi -> nnK (g_mult M n Phi).
Proof.
  intros H HP. pose proof (nnK_fac M n H) as HA. destruct H as [H1 H2]. split; cbn; auto.
  apply Forall_upd; [assumption|]. apply x_mtab. intros a r. apply nn_mul; apply x_mget; auto.
Qed.

Lemma nnm_phi_of eps X n A R Pi : (forall i, nn (den_dense v0 X i)) -> nnm A -> Forall nnm Pi ->
  nnm (phi_of v0 v1 vadd vmul vdivmax_e eps X n A R Pi).
Proof.
  intros HX HA HPi. apply x_mtab. intros a r. apply x_sum. intros i _.
  assert (Hp : forall s, nn (kprod v0 v1 vmul Pi i s)) by (intros s; apply x_kprod; auto).
  apply nn_mul; [|apply Hp]. apply divmax_nn; [apply HX|]. apply x_sum. intros s _. apply nn_mul; [|apply Hp]. apply x_mget. exact HA.
Qed.

Lemma nn_g_kkt M n Phi : nn (g_kkt M n Phi).
Proof. apply x_kkt; auto. Qed.

Lemma nnK_arrange M p : nnK M -> nnK (arrange v0 M p).
Proof.
  intros [H1 H2]. split; cbn.
  - apply Forall_forall. intros x Hx. apply in_map_iff in Hx. destruct Hx as (r & <- & _). now apply x_nth.
  - apply Forall_forall. intros A' HA'. apply in_map_iff in HA'. destruct HA' as (A & <- & HA).
    rewrite Forall_forall in H2. specialize (H2 A HA).
    apply Forall_forall. intros row' Hr'. apply in_map_iff in Hr'. destruct Hr' as (row & <- & Hrow).
    rewrite Forall_forall in H2. specialize (H2 row Hrow).
    apply Forall_forall. intros x Hx. apply in_map_iff in Hx. destruct Hx as (r & <- & _). now apply x_nth.
Qed.

Lemma nnK_sort M nt b : nnK M -> nnK (g_sort M nt b).
Proof.
  intros H. unfold gk_normalize_sort. pose proof (nnK_normalize M nt H) as H1.
  destruct (b && _); auto. now apply nnK_arrange.
Qed.

Section WithData.
Variable X : dense V.
Hypothesis X_nn : forall i, nn (den_dense v0 X i).
Variable kappa : V.
Hypothesis kappa_nn : nn kappa.

(* inner loop: model, Phi and the per-mode KKT values stay non-negative *)
Lemma loop4_nn Pi eps it n rank tol : Forall nnm Pi -> forall fuel i M Phi cv km ni w M' Phi' cv' km' ni' w',
  gloop4 Pi eps X it n rank tol fuel i (M, Phi, cv, km, ni, w) = Some (M', Phi', cv', km', ni', w') ->
  nnK M -> Forall nnm Phi -> nnl km -> nnK M' /\ Forall nnm Phi' /\ nnl km'.
Proof.
  intros HPi. induction fuel as [|fuel IH]; intros i M Phi cv km ni w M' Phi' cv' km' ni' w' H HM HP Hk.
  - cbn in H. inversion H. subst. auto.
  - cbn [GenCpAprMu.cp_apr_mu_loop4] in H. unfold gk_phi at 1 in H. dm H.
    + inversion H. subst.
      assert (HP' : Forall nnm Phi').
      { eapply sk_set_Forall; eauto. apply nnm_phi_of; auto. now apply nnK_fac. }
      split; [exact HM|]. split; [exact HP'|]. eapply sk_set_Forall; [eassumption|exact Hk|apply nn_g_kkt].
    + assert (HP' : Forall nnm l0).
      { eapply sk_set_Forall; eauto. apply nnm_phi_of; auto. now apply nnK_fac. }
      apply IH in H; auto.
      * now apply nnK_mult.
      * eapply sk_set_Forall; [eassumption|exact Hk|apply nn_g_kkt].
Qed.

(* mode loop *)
Lemma loop3_nn N eps it kappatol maxinner rank tol : forall fuel i M Phi cv km n ni nv w M' Phi' cv' km' n' ni' nv' w',
  gloop3 N eps X it kappa kappatol maxinner rank tol fuel i (M, Phi, cv, km, n, ni, nv, w) = Some (M', Phi', cv', km', n', ni', nv', w') ->
  nnK M -> Forall nnm Phi -> nnl km -> nnK M' /\ Forall nnm Phi' /\ nnl km'.
Proof.
  induction fuel as [|fuel IH]; intros i M Phi cv km n ni nv w M' Phi' cv' km' n' ni' nv' w' H HM HP Hk.
  - cbn in H. inversion H. subst. auto.
  - cbn [GenCpAprMu.cp_apr_mu_loop3] in H.
    match type of H with match ?x with _ => _ end = Some _ => destruct x as [[[M1 V1] nv1]|] eqn:E1; [|discriminate] end.
    assert (HM1 : nnK M1).
    { destruct (0 <? it); [|inversion E1; subst; auto].
      destruct (gk_any _) eqn:Ea.
      - destruct (nth_error nv it); [|discriminate]. destruct (sk_set nv it _); [|discriminate].
        inversion E1. subst. now apply nnK_add_kappa.
      - inversion E1. subst. auto. }
    match type of H with match ?x with _ => _ end = Some _ => destruct x as [[[[[[M2 Phi2] cv2] km2] ni2] w2]|] eqn:E2; [|discriminate] end.
    apply loop4_nn in E2; auto.
    + destruct E2 as (A1 & A2 & A3). apply IH in H; auto. now apply nnK_normalize_mode.
    + unfold gk_pi. apply Forall_remove_nth. apply (nnK_redistribute M1 i HM1).
    + now apply nnK_redistribute.
Qed.

(* outer loop: the first (last iteration + 1) entries of kktViolations are non-negative *)
Lemma loop2_nn N eps kappatol maxinner rank start stoptime tol : forall fuel i M Phi it km kv n ni nt nv w M' Phi' it' km' kv' n' ni' nt' nv' w',
  gloop2 N eps X kappa kappatol maxinner rank start stoptime tol fuel i (M, Phi, it, km, kv, n, ni, nt, nv, w)
    = Some (M', Phi', it', km', kv', n', ni', nt', nv', w') ->
  nnK M -> Forall nnm Phi -> nnl km -> nnl (firstn i kv) ->
  nnK M' /\ (0 < fuel -> exists j, it' = Some j /\ nnl (firstn (S j) kv')).
Proof.
  induction fuel as [|fuel IH]; intros i M Phi it km kv n ni nt nv w M' Phi' it' km' kv' n' ni' nt' nv' w' H HM HP Hk Hv.
  - cbn in H. inversion H. subst. split; auto. lia.
  - cbn [GenCpAprMu.cp_apr_mu_loop2] in H.
    match type of H with match ?x with _ => _ end = Some _ =>
      destruct x as [[[[[[[[M1 Phi1] cv1] km1] n1] ni1] nv1] w1]|] eqn:E1; [|discriminate] end.
    apply loop3_nn in E1; auto. destruct E1 as (A1 & A2 & A3).
    match type of H with match ?x with _ => _ end = Some _ => destruct x as [kv1|] eqn:E2; [|discriminate] end.
    assert (Hv1 : nnl (firstn (S i) kv1)).
    { rewrite (sk_set_firstn _ _ _ _ E2). apply Forall_app. split; [exact Hv|]. constructor; [|constructor]. apply x_maxlist. exact A3. }
    destruct (clock w1) as [w2 t].
    match type of H with match ?x with _ => _ end = Some _ => destruct x as [nt1|] eqn:E3; [|discriminate] end.
    destruct cv1.
    + inversion H. subst. split; auto. intros _. exists i. split; auto.
    + match type of H with match ?x with _ => _ end = Some _ => destruct x as [t12|] eqn:E4; [|discriminate] end.
      destruct (negb _).
      * inversion H. subst. split; auto. intros _. exists i. split; auto.
      * destruct fuel as [|fuel'].
        -- cbn in H. inversion H. subst. split; auto. intros _. exists i. split; auto.
        -- apply IH in H; auto. destruct H as [B1 B2]. split; auto. intros _. apply B2. lia.
Qed.

End WithData.

Lemma loop1_nn M : forall fuel i Phi n Phi' n', gloop1 M fuel i (Phi, n) = Some (Phi', n') -> Forall nnm Phi -> Forall nnm Phi'.
Proof.
  induction fuel as [|fuel IH]; intros i Phi n Phi' n' H HP.
  - cbn in H. inversion H. subst. exact HP.
  - cbn [GenCpAprMu.cp_apr_mu_loop1] in H. apply IH in H; [exact H|].
    apply Forall_app. split; [exact HP|]. constructor; [|constructor]. apply x_mtab. intros a r. exact nn0.
Qed.

Lemma nnl_repeat0 k : nnl (repeat v0 k).
Proof. apply Forall_forall. intros x Hx. apply repeat_spec in Hx. subst. exact nn0. Qed.

(* the whole generated function *)
Theorem gen_mu_nonneg : forall w X rank init stoptol stoptime maxiters maxinner eps printitn printinner kappa kappatol N
                               M kkt ninner nviol ntotal times tstop obj w',
  (forall i, nn (den_dense v0 X i)) -> nn kappa -> nnK init ->
  gmu w X rank init stoptol stoptime maxiters maxinner eps printitn printinner kappa kappatol N
    = Some (M, (kkt, ninner, nviol, ntotal, times, tstop, obj), w') ->
  nnK M /\ nnl kkt /\
  1 <= length kkt <= maxiters /\ length ninner = length kkt /\ length nviol = length kkt /\ length times = length kkt.
Proof.
  intros until w'. intros HX Hkap Hinit H.
  assert (HB := mu_bookkeeping _ _ _ _ _ _ _ _ _ _ _ _ _ _ _ _ _ _ _ _ _ _ _ _ _ _ _ _ _ _ _ _ _ _ _ _ _ _ _ _ _ _ _ _ _ _ _ _ _ H).
  split; [|split; [|exact HB]]; unfold gen_mu, GenCpAprMu.cp_apr_mu in H;
    (match type of H with match ?x with _ => _ end = Some _ => destruct x as [[Phi0 n0]|] eqn:E0; [|discriminate] end);
    destruct (clock w) as [w1 t1];
    (match type of H with match ?x with _ => _ end = Some _ =>
      destruct x as [[[[[[[[[[M1 Phi1] it1] km1] kv1] n1] ni1] nt1] nv1] w2]|] eqn:E1; [|discriminate] end);
    destruct (clock w2) as [w3 t3]; (destruct it1 as [j|]; [|discriminate]); inversion H; subst;
    (apply (loop2_nn X HX kappa Hkap) in E1;
      [| now apply nnK_normalize | eapply loop1_nn; [exact E0|constructor] | apply nnl_repeat0 | cbn [firstn]; constructor]).
  - apply nnK_sort. apply E1.
  - destruct E1 as [_ E1]. destruct maxiters as [|m]; [cbn in HB; lia|].
    destruct (E1 ltac:(lia)) as (j' & Ej & Hj). inversion Ej. subst j'.
    unfold sk_slice. cbn [skipn]. rewrite ?Nat.sub_0_r, ?Nat.add_1_r. cbn [Nat.sub]. exact Hj.
Qed.

(* the bookkeeping clause on its own (corollary) *)
Corollary gen_mu_bookkeeping : forall w X rank init stoptol stoptime maxiters maxinner eps printitn printinner kappa kappatol N
                               M kkt ninner nviol ntotal times tstop obj w',
  (forall i, nn (den_dense v0 X i)) -> nn kappa -> nnK init ->
  gmu w X rank init stoptol stoptime maxiters maxinner eps printitn printinner kappa kappatol N
    = Some (M, (kkt, ninner, nviol, ntotal, times, tstop, obj), w') ->
  nnl kkt /\ 1 <= length kkt <= maxiters /\ length ninner = length kkt /\ length nviol = length kkt /\ length times = length kkt.
Proof. intros until w'. intros HX Hk Hi H. eapply gen_mu_nonneg in H; [|exact HX|exact Hk|exact Hi]. destruct H as [_ H]. exact H. Qed.

End G.

(* non-vacuity: a concrete run over Z (division oracle x / max(v, eps) := x, scaling oracle := identity, a clock that advances by one per
   reading starting at 5): two outer iterations, the inadmissible-zero repair fires in iteration 1, the run returns *)
Local Open Scope Z_scope.
Lemma gen_mu_ex :
  let X := mkDense [3; 2]%nat [2; 0; 1; 3; 0; 4] in
  let K := mkK [1; 2] [[[1; 2]; [0; 0]; [2; 1]]; [[1; 1]; [3; 0]]] in
  match gen_mu 0 1 Z.add Z.mul Z.sub (fun eps x v => x) (fun t a => a) Z.abs Z.min Z.max (Z.ltb 0) Z.ltb nat (fun w => (S w, Z.of_nat w))
               (fun _ _ => 7) 5%nat X 2%nat K 1 100 2%nat 1%nat 1 0%nat 0%nat 1 3 2%nat with
  | Some (M, out, w') =>
      out = ([1643; 34371575995622399], [2; 2]%nat, [0; 1]%nat, 4%nat, [1; 2], 3, 7) /\ w' = 9%nat /\
      forallb (Z.leb 0) (kweights M) = true /\ forallb (forallb (forallb (Z.leb 0))) (kfactors M) = true
  | None => False
  end.
Proof. vm_compute. repeat split; reflexivity. Qed.
(* ... and with the time limit 0 the same run leaves the loop after the first outer iteration although it has not converged *)
Lemma gen_mu_ex_time :
  let X := mkDense [3; 2]%nat [2; 0; 1; 3; 0; 4] in
  let K := mkK [1; 2] [[[1; 2]; [0; 0]; [2; 1]]; [[1; 1]; [3; 0]]] in
  match gen_mu 0 1 Z.add Z.mul Z.sub (fun eps x v => x) (fun t a => a) Z.abs Z.min Z.max (Z.ltb 0) Z.ltb nat (fun w => (S w, Z.of_nat w))
               (fun _ _ => 7) 5%nat X 2%nat K 1 0 2%nat 1%nat 1 0%nat 0%nat 1 3 2%nat with
  | Some (M, out, w') => out = ([1643], [2]%nat, [0]%nat, 2%nat, [1], 2, 7) /\ w' = 8%nat
  | None => False
  end.
Proof. vm_compute. repeat split; reflexivity. Qed.
