(* Props/C13.v — GCP solvers keep the best model, respect bounds, sample validly and are reusable.
   State machines with the random draws, the objective estimates and the update steps as inputs
   (Alg/C13Samplers.v, Alg/C13Solver.v, Alg/C13Steps.v).  Only statements, `exact`, Print Assumptions. *)
From Coq Require Import List ZArith Arith Bool QArith Qcanon.
From PV Require Import Base.Index Np.Array Model.Sparse Alg.C13Samplers Alg.C13Solver Alg.C13Steps Alg.C13Config Alg.C13Harness.
From PV Require Import Model.Repr Model.C08Kruskal Alg.C13Vec Model.Harness Alg.C13StepArith Alg.C13Thm.
Import ListNotations.
Local Open Scope nat_scope.

(* ================================ stochastic solver bookkeeping ================================ *)
Section SolverProps.
Variables M O E : Type.
Variable leb : E -> E -> bool.
Hypothesis leb_total : forall a b, leb a b = true \/ leb b a = true.
Hypothesis leb_trans : forall a b c, leb a b = true -> leb b c = true -> leb a c = true.
Variables (fest : M -> E) (epoch : nat -> nat -> O -> M -> M * O) (on_fail : O -> O) (max_fails : nat) (tol : option E).
Notation slv := (solve M O E leb fest epoch on_fail max_fails tol).

(* the returned model is the model held at an epoch boundary (or the start) whose estimate on the fixed function
   sample is the smallest value of the trace (start value + one value per completed epoch); it is no worse than the start *)
Theorem C13_best_model : forall max_iters m0 o0,
  let s := slv max_iters m0 o0 in
  cur _ _ _ s = best _ _ _ s /\ In (cur _ _ _ s) (m0 :: hist _ _ _ s) /\ map fest (hist _ _ _ s) = trace _ _ _ s /\
  is_min E leb (fest (cur _ _ _ s)) (full_trace M O E fest m0 s) /\ leb (fest (cur _ _ _ s)) (fest m0) = true.
Proof. exact (best_model M O E leb leb_total leb_trans fest epoch on_fail max_fails tol). Qed.

Theorem C13_trace_len : forall max_iters m0 o0,
  let s := slv max_iters m0 o0 in
  length (full_trace M O E fest m0 s) = S (epochs _ _ _ s) /\ epochs _ _ _ s <= max_iters /\
  length (hist _ _ _ s) = epochs _ _ _ s.
Proof. exact (trace_length M O E leb leb_total leb_trans fest epoch on_fail max_fails tol). Qed.

(* the trace the code reports — the slice [0 : n_epoch + 2] of the zero-initialised array of max_iters + 1 entries — is the
   full trace: the starting value and one value per completed epoch, nothing dropped, no padding (A-35 repaired) *)
Theorem C13_reported_trace_full : forall pad max_iters m0 o0,
  let s := slv max_iters m0 o0 in reported_trace M O E fest pad max_iters m0 s = full_trace M O E fest m0 s.
Proof. exact (reported_trace_full M O E leb fest epoch on_fail max_fails tol). Qed.

(* whatever every epoch preserves / establishes (all entries >= lower bound) holds for the returned model *)
Theorem C13_returned_invariant : forall (P : M -> Prop) max_iters m0 o0,
  P m0 -> (forall n f o m, P m -> P (fst (epoch n f o m))) -> P (cur _ _ _ (slv max_iters m0 o0)).
Proof. exact (returned_invariant M O E leb fest epoch on_fail max_fails tol). Qed.

Theorem C13_returned_established : forall (P : M -> Prop) max_iters m0 o0,
  (forall n f o m, P (fst (epoch n f o m))) ->
  let s := slv max_iters m0 o0 in cur _ _ _ s = m0 \/ P (cur _ _ _ s).
Proof. exact (returned_established M O E leb leb_total leb_trans fest epoch on_fail max_fails tol). Qed.

End SolverProps.

Print Assumptions C13_best_model.
Print Assumptions C13_trace_len.
Print Assumptions C13_reported_trace_full.
Print Assumptions C13_returned_invariant.
Print Assumptions C13_returned_established.

(* reuse (A-36 repaired): solve starts with `self._nfails = 0; self.reset_state()`.  Whatever the object went through
   before — any _nfails, any private state — the outcome is the one of a fresh object; stated for the three optimizers
   with their own reset_state, for every epoch function (update steps and gradient samples are inputs), and for whole
   sequences of solves on one object *)
Section ReuseProps.
Variables M E : Type.
Variable leb : E -> E -> bool.
Variables (fest : M -> E) (max_fails : nat) (tol : option E).

(* SGD: no private state, reset_state() does nothing *)
Theorem C13_reuse_sgd : forall (epoch : nat -> nat -> unit -> M -> M * unit) on_fail obj1 obj2 max_iters m0,
  solve_obj M unit E leb fest epoch on_fail (fun o => o) max_fails tol obj1 max_iters m0 =
  solve_obj M unit E leb fest epoch on_fail (fun o => o) max_fails tol obj2 max_iters m0.
Proof. exact (thm_reuse_sgd M E leb fest max_fails tol). Qed.

(* Adam: _m, _v, _m_prev, _v_prev, _total_iterations are forgotten *)
Theorem C13_reuse_adam : forall (V : Type) (epoch : nat -> nat -> adam_state V -> M -> M * adam_state V) on_fail obj1 obj2 max_iters m0,
  solve_obj M (adam_state V) E leb fest epoch on_fail (adam_reset V) max_fails tol obj1 max_iters m0 =
  solve_obj M (adam_state V) E leb fest epoch on_fail (adam_reset V) max_fails tol obj2 max_iters m0.
Proof. exact (thm_reuse_adam M E leb fest max_fails tol). Qed.

(* Adagrad: _gnormsum is forgotten *)
Theorem C13_reuse_adagrad : forall (V : Type) (v0 : V) (epoch : nat -> nat -> V -> M -> M * V) on_fail obj1 obj2 max_iters m0,
  solve_obj M V E leb fest epoch on_fail (adagrad_reset V v0) max_fails tol obj1 max_iters m0 =
  solve_obj M V E leb fest epoch on_fail (adagrad_reset V v0) max_fails tol obj2 max_iters m0.
Proof. exact (thm_reuse_adagrad M E leb fest max_fails tol). Qed.

(* every solve of a sequence issued to ONE object equals the same solve on a fresh object *)
Theorem C13_reuse_sequence : forall (O : Type) (epoch : nat -> nat -> O -> M -> M * O) on_fail reset,
  (forall o1 o2 : O, reset o1 = reset o2) ->
  forall fresh reqs obj,
    solve_seq M O E leb fest epoch on_fail reset max_fails tol obj reqs =
    map (fun q => solve_obj M O E leb fest epoch on_fail reset max_fails tol fresh (fst q) (snd q)) reqs.
Proof. exact (thm_reuse_sequence M E leb fest max_fails tol). Qed.
End ReuseProps.
Print Assumptions C13_reuse_sgd.
Print Assumptions C13_reuse_adam.
Print Assumptions C13_reuse_adagrad.
Print Assumptions C13_reuse_sequence.

(* ================================ L-BFGS-B wrapper (scipy is an oracle) ========================= *)
(* under the stated contract of scipy.optimize.fmin_l_bfgs_b (same length, the returned POINT never worse than the start,
   feasible stays feasible; nothing about the reported value): bounds list, callback slot restored, returned model =
   scipy's returned vector read back (not the last evaluated point), objective <= initial *)
Theorem C13_lbfgsb_wrap : forall (Mdl V F CB KW : Type) (leb : F -> F -> bool) (vle : V -> V -> Prop)
  (tovec : Mdl -> list V) (update : Mdl -> list V -> Mdl) (objective : Mdl -> F) (wf : Mdl -> Prop),
  (forall m, wf m -> update m (tovec m) = m) ->
  (forall m v, length v = length (tovec m) -> tovec (update m v) = v) ->
  forall scipy, scipy_contract V F CB KW leb vle scipy -> forall cb other m0 lb, wf m0 ->
  let o := lbfgsb_solve Mdl V F CB KW tovec update objective scipy (mkKw CB KW (UserCb CB cb) other) m0 lb in
  o_bounds _ _ _ _ _ o = repeat (lb, None) (length (tovec m0)) /\
  kw_callback _ _ (o_kwargs_during _ _ _ _ _ o) = MonitorOf CB cb /\ o_kwargs _ _ _ _ _ o = mkKw CB KW (UserCb CB cb) other /\
  tovec (o_model _ _ _ _ _ o) = o_final_vector _ _ _ _ _ o /\
  (Forall (within V vle lb) (tovec m0) ->
   leb (objective (o_model _ _ _ _ _ o)) (objective m0) = true /\ Forall (within V vle lb) (tovec (o_model _ _ _ _ _ o))).
Proof. exact lbfgsb_wrap. Qed.
Print Assumptions C13_lbfgsb_wrap.

(* the same for Kruskal models as they are (tovec = ktensor.tovec(False), update = ktensor.update(arange(ndims), .) from the
   C08 model): the two round-trip hypotheses are theorems there (Alg/C13Vec.v); the bounds list has rank * sum(shape) pairs
   and shape / rank of the result are those of the start *)
Theorem C13_lbfgsb_wrap_ktensor : forall (V : Type) (v0 : V) (F CB KW : Type) (leb : F -> F -> bool) (vle : V -> V -> Prop)
  (objective : ktensor V -> F) scipy,
  scipy_contract V F CB KW leb vle scipy -> forall cb other (K0 : ktensor V) lb, wf_k K0 ->
  let o := lbfgsb_solve (ktensor V) V F CB KW (tovec_f V v0) (update_all V v0) objective scipy (mkKw CB KW (UserCb CB cb) other) K0 lb in
  o_bounds _ _ _ _ _ o = repeat (lb, None) (krank K0 * sum_nat (kshape K0)) /\
  kw_callback _ _ (o_kwargs_during _ _ _ _ _ o) = MonitorOf CB cb /\ o_kwargs _ _ _ _ _ o = mkKw CB KW (UserCb CB cb) other /\
  tovec_f V v0 (o_model _ _ _ _ _ o) = o_final_vector _ _ _ _ _ o /\
  (Forall (within V vle lb) (tovec_f V v0 K0) ->
   leb (objective (o_model _ _ _ _ _ o)) (objective K0) = true /\ Forall (within V vle lb) (tovec_f V v0 (o_model _ _ _ _ _ o))) /\
  kshape (o_model _ _ _ _ _ o) = kshape K0 /\ krank (o_model _ _ _ _ _ o) = krank K0.
Proof. exact lbfgsb_wrap_ktensor. Qed.
Print Assumptions C13_lbfgsb_wrap_ktensor.

(* info["final_f"] is the objective of the returned model, hence no worse than a feasible start — on EVERY run (C13-L1 repaired,
   /repo a2890fd): scipy_reports_value only says that scipy reports the value at the point it returns when it did NOT abandon a
   line search (warnflag <> 2); after an abandoned line search the wrapper re-evaluates the returned model itself *)
Theorem C13_lbfgsb_final_f : forall (Mdl V F CB KW : Type) (leb : F -> F -> bool) (vle : V -> V -> Prop)
  (tovec : Mdl -> list V) (update : Mdl -> list V -> Mdl) (objective : Mdl -> F) (wf : Mdl -> Prop),
  (forall m, wf m -> update m (tovec m) = m) ->
  (forall m v, length v = length (tovec m) -> tovec (update m v) = v) ->
  forall scipy, scipy_contract V F CB KW leb vle scipy -> scipy_reports_value V F CB KW scipy -> forall cb other m0 lb, wf m0 ->
  Forall (within V vle lb) (tovec m0) ->
  let o := lbfgsb_solve Mdl V F CB KW tovec update objective scipy (mkKw CB KW (UserCb CB cb) other) m0 lb in
  objective (o_model _ _ _ _ _ o) = o_final_f _ _ _ _ _ o /\ leb (o_final_f _ _ _ _ _ o) (objective m0) = true.
Proof. exact thm_lbfgsb_final_f. Qed.
Print Assumptions C13_lbfgsb_final_f.
(* after an abandoned line search (warnflag 2) nothing is assumed of scipy: final_f is the wrapper's own evaluation *)
Theorem C13_lbfgsb_final_f_abandoned : forall (Mdl V F CB KW : Type) (tovec : Mdl -> list V) (update : Mdl -> list V -> Mdl)
  (objective : Mdl -> F) scipy kw m0 lb,
  let o := lbfgsb_solve Mdl V F CB KW tovec update objective scipy kw m0 lb in
  o_warnflag _ _ _ _ _ o = 2 -> objective (o_model _ _ _ _ _ o) = o_final_f _ _ _ _ _ o.
Proof. exact lbfgsb_final_f_abandoned. Qed.
Print Assumptions C13_lbfgsb_final_f_abandoned.

(* LBFGSB.Monitor: at most max(maxiter, 1) callbacks (scipy's loop) against max(maxiter, 1) time_trace slots: no IndexError for
   ANY maxiter, 0 included (C13-L2 repaired, /repo 87cee74); for maxiter >= 1 the trace has maxiter slots as before *)
Theorem C13_lbfgsb_monitor : forall maxiter ncalls, ncalls <= Nat.max maxiter 1 ->
  monitor_raises (monitor_slots maxiter) ncalls = false /\ 1 <= monitor_slots maxiter /\
  (1 <= maxiter -> monitor_slots maxiter = maxiter).
Proof. exact monitor_index. Qed.
Print Assumptions C13_lbfgsb_monitor.

Theorem C13_lbfgsb_reuse : forall (Mdl V F CB KW : Type) (tovec : Mdl -> list V) (update : Mdl -> list V -> Mdl) (objective : Mdl -> F)
  scipy cb other m0 lb m1 lb1,
  let kw := mkKw CB KW (UserCb CB cb) other in
  lbfgsb_solve Mdl V F CB KW tovec update objective scipy (o_kwargs _ _ _ _ _ (lbfgsb_solve Mdl V F CB KW tovec update objective scipy kw m0 lb)) m1 lb1 =
  lbfgsb_solve Mdl V F CB KW tovec update objective scipy kw m1 lb1.
Proof. exact lbfgsb_reuse. Qed.
Print Assumptions C13_lbfgsb_reuse.

(* ================================ GCPSampler default-count rules =============================== *)
(* the table is a transliteration with math.ceil of the float quotient as an ORACLE cd (recorded by the harness on every run);
   every statement holds for every oracle, i.e. however the quotient is rounded *)
Local Open Scope Z_scope.
Theorem C13_sampler_defaults_feasible : forall cd sparse size nnz max_iters k, 0 <= nnz <= size -> 0 < max_iters ->
  (fn_config_o cd sparse size nnz k RNone <> CError -> conf_feasible size nnz (fn_config_o cd sparse size nnz k RNone)) /\
  (gr_config_o cd sparse size nnz max_iters k RNone <> CError -> conf_feasible size nnz (gr_config_o cd sparse size nnz max_iters k RNone)).
Proof. exact thm_sampler_defaults_feasible. Qed.
Print Assumptions C13_sampler_defaults_feasible.

Theorem C13_sampler_defaults_small : forall cd size nnz max_iters, 0 <= nnz <= size -> 0 < max_iters ->
  (nnz <= 10 ^ 5 -> fn_config_o cd true size nnz None RNone = CStratified nnz (Z.min nnz (size - nnz))) /\
  (size <= 10 ^ 6 -> fn_config_o cd false size nnz None RNone = CUniform size) /\
  (nnz <= 1000 -> gr_config_o cd true size nnz max_iters None RNone = CStratified nnz (Z.min nnz (size - nnz))) /\
  (size <= 1000 -> gr_config_o cd false size nnz max_iters None RNone = CUniform size).
Proof. exact thm_sampler_defaults_small. Qed.
Print Assumptions C13_sampler_defaults_small.

Theorem C13_sampler_table : forall cd sparse size nnz max_iters n nz z req,
  (fn_config_o cd sparse size nnz (Some Uniform) (RInt n) = CUniform n /\
   fn_config_o cd true size nnz (Some Stratified) (RInt n) = CStratified n n /\
   fn_config_o cd true size nnz (Some Stratified) (RStrat nz z) = CStratified nz z /\
   gr_config_o cd false size nnz max_iters (Some Uniform) (RInt n) = CUniform n /\
   gr_config_o cd true size nnz max_iters (Some Uniform) (RInt n) = CPoisson n size nnz /\
   gr_config_o cd true size nnz max_iters (Some Stratified) (RInt n) = CStratified n n /\
   gr_config_o cd true size nnz max_iters (Some Stratified) (RStrat nz z) = CStratified nz z /\
   gr_config_o cd sparse size nnz max_iters (Some Semistratified) (RInt n) = CSemistrat n n /\
   gr_config_o cd sparse size nnz max_iters (Some Semistratified) (RStrat nz z) = CSemistrat nz z) /\
  (fn_config_o cd false size nnz (Some Stratified) req = CError /\
   gr_config_o cd false size nnz max_iters (Some Stratified) req = CError /\
   fn_config_o cd sparse size nnz (Some Semistratified) req = CError /\
   fn_config_o cd sparse size nnz (Some Uniform) (RStrat nz z) = CError /\
   gr_config_o cd sparse size nnz max_iters (Some Uniform) (RStrat nz z) = CError) /\
  (default_kind sparse None = (if sparse then Stratified else Uniform) /\
   crng_len (fn_config_o cd sparse size nnz None req) = 0 /\
   crng_len (gr_config_o cd sparse size nnz max_iters None req) = 0 /\
   (forall nz z, gr_config_o cd sparse size nnz max_iters (Some Semistratified) req = CSemistrat nz z ->
                 crng_len (gr_config_o cd sparse size nnz max_iters (Some Semistratified) req) = nz)).
Proof. exact thm_sampler_table. Qed.
Print Assumptions C13_sampler_table.

(* the ceil oracle: cdiv (the instance fn_config / gr_config use) is the exact ceiling; a side's configuration depends on the
   oracle only through the one quotient it asks for; explicit requests never call it *)
Theorem C13_sampler_ceil :
  (forall a b, 0 < b -> (cdiv a b - 1) * b < a <= cdiv a b * b) /\
  (forall cd1 cd2 sparse size nnz max_iters k req,
     (cd1 nnz 100 = cd2 nnz 100 -> cd1 size 10 = cd2 size 10 ->
      fn_config_o cd1 sparse size nnz k req = fn_config_o cd2 sparse size nnz k req) /\
     (cd1 (10 * size) max_iters = cd2 (10 * size) max_iters -> cd1 (3 * nnz) max_iters = cd2 (3 * nnz) max_iters ->
      gr_config_o cd1 sparse size nnz max_iters k req = gr_config_o cd2 sparse size nnz max_iters k req)) /\
  (forall sparse k max_iters req, req <> RNone -> fn_ceil_calls sparse k req = 0%nat /\ gr_ceil_calls max_iters req = 0%nat).
Proof. exact thm_sampler_ceil. Qed.
Print Assumptions C13_sampler_ceil.
(* the recorded float ceiling (cd_obs: the oracle the generated cases run the table with) is never further than 1 from the exact
   ceiling, for every quotient below 2^52 *)
Theorem C13_ceil_oracle_bound : forall calls a b, 0 <= a -> 0 < b -> a < b * 2 ^ 52 ->
  cd_obs calls a b = -1 \/ cdiv a b - 1 <= cd_obs calls a b <= cdiv a b + 1.
Proof. exact cd_obs_bound. Qed.
Print Assumptions C13_ceil_oracle_bound.
Local Close Scope Z_scope.

(* ================================ projected update steps ======================================= *)
(* every entry of the factor matrices after an SGD / Adam / Adagrad step is >= the lower bound, whatever the
   gradient, the optimizer state, the (abstract) square roots and divisions and the outcome vpos of Adagrad's guard
   `_gnormsum > 0` (zero accumulator included) are *)
Theorem C13_bounds_steps : forall (V : Type) (vle : V -> V -> Prop) (vmax : V -> V -> V),
  (forall a b, vle a (vmax a b)) ->
  forall (vadd vsub vmul vdiv : V -> V -> V) (vsqrt : V -> V) (vpow : V -> nat -> V) (v0 v1 : V) (vpos : V -> bool) (lb : option V),
  (forall rate decay nfails xs gs, Forall (above V vle lb) (sgd_step V vmax vsub vmul vpow rate decay nfails lb xs gs)) /\
  (forall rate decay b1 b2 eps ei nf o xs gs,
     Forall (above V vle lb) (fst (adam_step V vmax vadd vsub vmul vdiv vsqrt vpow v0 v1 rate decay b1 b2 eps ei nf lb o xs gs))) /\
  (forall gsum xs gs, Forall (above V vle lb) (fst (adagrad_step V vmax vadd vsub vmul vdiv vsqrt v0 v1 vpos lb gsum xs gs))).
Proof. exact thm_bounds_steps. Qed.
Print Assumptions C13_bounds_steps.

(* an epoch of k >= 1 such steps establishes the bound; k = 0 keeps it *)
Theorem C13_bounds_epoch : forall (V : Type) (vle : V -> V -> Prop) (S : Type)
  (stepf : S -> list V -> list V * S) (lb : option V),
  (forall s x, Forall (above V vle lb) (fst (stepf s x))) ->
  forall k s x, Forall (above V vle lb) x \/ 1 <= k -> Forall (above V vle lb) (fst (iterate_steps V stepf k s x)).
Proof. exact epoch_above. Qed.
Print Assumptions C13_bounds_epoch.

(* ================================ update arithmetic in exact rationals ========================== *)
(* the transliterated steps of Alg/C13Steps.v over the field Qc; the square root is an oracle sq of which only 0 <= sq x is
   assumed.  Entry-wise closed forms, the direction of the step for a feasible entry, fixed points, state updates. *)
Local Open Scope Qc_scope.
(* SGD: x' = max(lb, x - decay^nfails * rate * g); each failed epoch multiplies the step by decay *)
Theorem C13_sgd_step_arith : forall rate decay nf lb xs gs, length gs = length xs ->
  length (qsgd_step rate decay nf lb xs gs) = length xs /\
  forall k, (k < length xs)%nat ->
    let x := nth k xs 0 in let g := nth k gs 0 in let x' := nth k (qsgd_step rate decay nf lb xs gs) 0 in
    x' = clamp Qc qmax lb (x - sgd_stepsize rate decay nf * g) /\ above Qc Qcle lb x' /\
    (0 <= rate -> 0 <= decay ->
       (above Qc Qcle lb x -> 0 <= g -> x' <= x) /\ (g <= 0 -> x <= x') /\ (above Qc Qcle lb x -> g = 0 -> x' = x)).
Proof. exact sgd_step_arith. Qed.
Print Assumptions C13_sgd_step_arith.
Theorem C13_sgd_stepsize : forall rate decay nf,
  sgd_stepsize rate decay 0 = rate /\ sgd_stepsize rate decay (S nf) = decay * sgd_stepsize rate decay nf /\
  (0 <= rate -> 0 <= decay -> 0 <= sgd_stepsize rate decay nf).
Proof. exact thm_sgd_stepsize. Qed.
Print Assumptions C13_sgd_stepsize.

(* Adagrad: the accumulator grows by the squared gradient norm, step = (1 / sqrt(accumulator) if accumulator > 0 else 0) >= 0
   (adagrad_stepsize; the guard of /repo 2496788), x' = max(lb, x - step * g);
   after reset_state / a failed epoch the accumulator is the squared norm of that step's gradient alone *)
Theorem C13_adagrad_step_arith : forall (sq : Qc -> Qc), (forall x, 0 <= sq x) -> forall lb gsum xs gs, length gs = length xs ->
  let gsum' := snd (qadagrad_step sq lb gsum xs gs) in let step := adagrad_stepsize sq gsum' in
  gsum' = gsum + sumsq gs /\ gsum <= gsum' /\ (0 <= gsum -> 0 <= gsum') /\ 0 <= step /\
  length (fst (qadagrad_step sq lb gsum xs gs)) = length xs /\
  forall k, (k < length xs)%nat ->
    let x := nth k xs 0 in let g := nth k gs 0 in let x' := nth k (fst (qadagrad_step sq lb gsum xs gs)) 0 in
    x' = clamp Qc qmax lb (x - step * g) /\ above Qc Qcle lb x' /\
    (above Qc Qcle lb x -> 0 <= g -> x' <= x) /\ (g <= 0 -> x <= x') /\ (above Qc Qcle lb x -> g = 0 -> x' = x).
Proof. exact adagrad_step_arith. Qed.
Print Assumptions C13_adagrad_step_arith.
Theorem C13_adagrad_after_reset : forall (sq : Qc -> Qc) lb g0 xs gs,
  snd (qadagrad_step sq lb (adagrad_reset Qc 0 g0) xs gs) = sumsq gs.
Proof. exact adagrad_after_reset. Qed.
Print Assumptions C13_adagrad_after_reset.
(* zero accumulator (every gradient sampled since the last reset exactly zero; repaired finding C13-G1): whatever the square root
   answers — NO hypothesis on sq — the step size is 0, every new entry is max(lb, x): the bound holds and a feasible model stays *)
Theorem C13_adagrad_zero_accumulator : forall (sq : Qc -> Qc) lb gsum xs gs, length gs = length xs -> gsum + sumsq gs <= 0 ->
  adagrad_stepsize sq (gsum + sumsq gs) = 0 /\
  snd (qadagrad_step sq lb gsum xs gs) = gsum + sumsq gs /\
  fst (qadagrad_step sq lb gsum xs gs) = map (clamp Qc qmax lb) xs /\
  Forall (above Qc Qcle lb) (fst (qadagrad_step sq lb gsum xs gs)) /\
  (Forall (above Qc Qcle lb) xs -> fst (qadagrad_step sq lb gsum xs gs) = xs).
Proof. exact adagrad_zero_accumulator. Qed.
Print Assumptions C13_adagrad_zero_accumulator.
Theorem C13_adagrad_zero_gradient_after_reset : forall (sq : Qc -> Qc) lb g0 xs gs,
  length gs = length xs -> sumsq gs = 0 -> Forall (above Qc Qcle lb) xs ->
  qadagrad_step sq lb (adagrad_reset Qc 0 g0) xs gs = (xs, 0).
Proof. exact adagrad_zero_gradient_after_reset. Qed.
Print Assumptions C13_adagrad_zero_gradient_after_reset.

(* Adam: moments, bias corrections with the step counter that advances by epoch_iters per step, projected update *)
Theorem C13_adam_step_arith : forall (sq : Qc -> Qc), (forall x, 0 <= sq x) -> forall rate decay b1 b2 eps ei nf lb o xs gs,
  let m0 := adam_m0 o xs in let w0 := adam_w0 o xs in
  length gs = length xs -> length m0 = length xs -> length w0 = length xs ->
  let r := qadam_step sq rate decay b1 b2 eps ei nf lb o xs gs in
  let t := (atot Qc o + ei)%nat in
  atot Qc (snd r) = t /\ am_prev Qc (snd r) = m0 /\ av_prev Qc (snd r) = w0 /\
  length (fst r) = length xs /\ length (am Qc (snd r)) = length xs /\ length (av Qc (snd r)) = length xs /\
  forall k, (k < length xs)%nat ->
    let x := nth k xs 0 in let g := nth k gs 0 in
    let m' := nth k (am Qc (snd r)) 0 in let v' := nth k (av Qc (snd r)) 0 in let x' := nth k (fst r) 0 in
    m' = b1 * nth k m0 0 + (1 - b1) * g /\ v' = b2 * nth k w0 0 + (1 - b2) * (g * g) /\
    x' = clamp Qc qmax lb (x - (sgd_stepsize rate decay nf * (m' / (1 - b1 ^ t))) / (sq (v' / (1 - b2 ^ t)) + eps)) /\
    above Qc Qcle lb x' /\
    (0 <= rate -> 0 <= decay -> 0 < eps -> 0 <= b1 -> b1 < 1 -> (1 <= ei)%nat ->
       (above Qc Qcle lb x -> 0 <= m' -> x' <= x) /\ (m' <= 0 -> x <= x') /\ (above Qc Qcle lb x -> m' = 0 -> x' = x)).
Proof. exact adam_step_arith. Qed.
Print Assumptions C13_adam_step_arith.
(* the first step after reset_state(): moments (1 - beta_1) g and (1 - beta_2) g^2; a feasible entry moves against the gradient *)
Theorem C13_adam_first_step : forall (sq : Qc -> Qc), (forall x, 0 <= sq x) -> forall rate decay b1 b2 eps ei nf lb o xs gs,
  length gs = length xs ->
  let r := qadam_step sq rate decay b1 b2 eps ei nf lb (adam_reset Qc o) xs gs in
  atot Qc (snd r) = ei /\
  forall k, (k < length xs)%nat ->
    let x := nth k xs 0 in let g := nth k gs 0 in let x' := nth k (fst r) 0 in
    nth k (am Qc (snd r)) 0 = (1 - b1) * g /\ nth k (av Qc (snd r)) 0 = (1 - b2) * (g * g) /\
    (0 <= rate -> 0 <= decay -> 0 < eps -> 0 <= b1 -> b1 < 1 -> (1 <= ei)%nat ->
       (above Qc Qcle lb x -> 0 <= g -> x' <= x) /\ (g <= 0 -> x <= x') /\ (above Qc Qcle lb x -> g = 0 -> x' = x)).
Proof. exact adam_first_step_arith. Qed.
Print Assumptions C13_adam_first_step.
Local Close Scope Qc_scope.
(* set_failed_epoch of Adam (any value type): moments and step counter go back to what they were before the LAST step *)
Theorem C13_adam_failed_epoch : forall (V : Type) (vmax vadd vsub vmul vdiv : V -> V -> V) (vsqrt : V -> V) (vpow : V -> nat -> V) (v0 v1 : V)
  rate decay b1 b2 eps ei nf lb o xs gs,
  (atot V o <> 0 ->
   adam_failed V ei (snd (adam_step V vmax vadd vsub vmul vdiv vsqrt vpow v0 v1 rate decay b1 b2 eps ei nf lb o xs gs)) =
   mkAdam V (am V o) (av V o) (am V o) (av V o) (atot V o)) /\
  adam_failed V ei (snd (adam_step V vmax vadd vsub vmul vdiv vsqrt vpow v0 v1 rate decay b1 b2 eps ei nf lb (adam_reset V o) xs gs)) =
  mkAdam V (map (fun _ => v0) xs) (map (fun _ => v0) xs) (map (fun _ => v0) xs) (map (fun _ => v0) xs) 0.
Proof. exact thm_adam_failed_epoch. Qed.
Print Assumptions C13_adam_failed_epoch.

(* ================================ samplers (draws are inputs) ================================== *)
Local Open Scope Z_scope.
(* one draw u = a/D in [0,1) — 0.0 included — gives floor(u*d), a subscript inside the mode (A-48 repaired) ... *)
Theorem C13_draw_in_range : forall D a d, 0 < D -> 0 <= a < D -> 0 < d -> 0 <= draw_sub D a d < d.
Proof. exact (fun D a d HD => draw_sub_range D HD a d). Qed.
Print Assumptions C13_draw_in_range.
(* ... and every index of the mode is reachable, the first by u = 0 and the last by u = 1 - 1/D (for uniform, zeros and
   semi-stratified alike: they share the same draw) *)
Theorem C13_draw_onto : forall D d, 0 < D -> 0 < d <= D ->
  (forall j, 0 <= j < d -> exists a, 0 <= a < D /\ draw_sub D a d = j) /\ draw_sub D 0 d = 0 /\ draw_sub D (D - 1) d = d - 1.
Proof. exact thm_draw_onto. Qed.
Print Assumptions C13_draw_onto.

(* uniform: one subscript row, one value per sample; subscripts inside the tensor; values = data there *)
Theorem C13_uniform : forall (V : Type) (v0 : V) D (X : dense V) draws, 0 < D ->
  pos_shape (dshape X) -> Forall (unit_draws D (dshape X)) draws ->
  length (uniform_subs D (dshape X) draws) = length draws /\ length (uniform_vals D v0 X draws) = length draws /\
  Forall2 (fun row v => exists i, row = zidx i /\ inb (dshape X) i = true /\ v = den_dense v0 X i)
          (uniform_subs D (dshape X) draws) (uniform_vals D v0 X draws).
Proof. exact thm_uniform. Qed.
Print Assumptions C13_uniform.

(* nonzero samples (stratified and semi-stratified): stored subscripts with the data at them *)
Theorem C13_nonzero_samples : forall (V : Type) (v0 : V) (isz : V -> bool) (S : sparse V) nidx,
  wf_sp isz S -> Forall (fun k => (k < nnz S)%nat) nidx ->
  length (nz_subs S nidx) = length nidx /\ length (nz_vals v0 S nidx) = length nidx /\
  Forall2 (fun row v => exists i, row = zidx i /\ inb (sshape S) i = true /\ v = den_sp v0 S i /\ isz v = false)
          (nz_subs S nidx) (nz_vals v0 S nidx).
Proof. exact thm_nonzero_samples. Qed.
Print Assumptions C13_nonzero_samples.

(* zero samples of the stratified sampler are inside the tensor and are true zeros of the data *)
Theorem C13_zero_samples_true_zeros : forall (V : Type) (v0 : V) D (S : sparse V) nzidx draws req, 0 < D ->
  pos_shape (sshape S) -> Forall (unit_draws D (sshape S)) draws -> nzidx_ok S nzidx ->
  Forall (fun row => exists i, row = zidx i /\ inb (sshape S) i = true /\ den_sp v0 S i = v0)
         (zero_subs D (sshape S) nzidx draws req).
Proof. exact (fun V v0 D S nzidx draws req HD => zero_subs_true_zeros D HD v0 S nzidx draws req). Qed.
Print Assumptions C13_zero_samples_true_zeros.

(* the oversampling rule of samplers.zeros in exact arithmetic, for any rate pn/pd >= 1 (the code: 1.1): at least as many subscript
   rows are drawn as zeros are requested, for every request and every tensor with at least one zero (the float quotient / product of
   the code are recorded oracles in the correspondence: Alg/C13Harness.v zero_draw_rows) *)
Theorem C13_zero_oversample : forall pn pd size numz req,
  0 < pd <= pn -> 0 < numz <= size -> 0 <= req -> req <= rows_exact pn pd size numz req.
Proof. exact rows_exact_ge_request. Qed.
Print Assumptions C13_zero_oversample.

(* |subscripts| = |values| for the stratified sampler exactly when the draws contain enough zeros; the repaired
   sampler (values sized by what was obtained) always agrees — finding C13-S1 *)
Theorem C13_stratified_lengths : forall (V : Type) (v0 : V) D (S : sparse V) nzidx nidx draws num_zeros,
  (length (strat_subs D S nzidx nidx draws num_zeros) =
     (length nidx + Nat.min num_zeros (length (filter (is_zero_row (sshape S) nzidx) (map (draw_row D (sshape S)) draws))))%nat /\
   length (strat_vals v0 S nidx num_zeros) = (length nidx + num_zeros)%nat) /\
  length (strat_subs D S nzidx nidx draws num_zeros) = length (strat_vals_fixed D v0 S nzidx nidx draws num_zeros).
Proof. exact thm_stratified_lengths. Qed.
Print Assumptions C13_stratified_lengths.

Theorem C13_semistrat : forall (V : Type) (v0 : V) D (S : sparse V) nidx draws, 0 < D ->
  (length (semi_subs D S nidx draws) = (length nidx + length draws)%nat /\
   length (semi_vals v0 S nidx draws) = (length nidx + length draws)%nat) /\
  (pos_shape (sshape S) -> Forall (unit_draws D (sshape S)) draws ->
   Forall (in_rangeZ (sshape S)) (map (draw_row D (sshape S)) draws)).
Proof. exact thm_semistrat. Qed.
Print Assumptions C13_semistrat.

(* weights: n samples of weight c/n total c, the number of entries the stratum stands for *)
Theorem C13_sampler_weights : forall (c : Qc) (n : nat), (0 < n)%nat ->
  wsum (even_weights c n) = c /\ length (even_weights c n) = n.
Proof. exact even_weights_total. Qed.
Print Assumptions C13_sampler_weights.
(* stratified / semi-stratified: one weight per requested sample — num_nonzeros weights nnz/num_nonzeros then num_zeros weights
   zeros/num_zeros; for EVERY request (also more nonzero samples than there are nonzeros, or more zero samples than zeros) the
   nonzero weights total the number of nonzeros and the zero weights the number of entries of the zero stratum, and there is one
   weight per value of the sample *)
Theorem C13_stratified_weights : forall (nnzq zerosq : Qc) (cn cz : nat),
  length (strat_weights nnzq zerosq cn cz) = (cn + cz)%nat /\
  ((0 < cn)%nat -> wsum (firstn cn (strat_weights nnzq zerosq cn cz)) = nnzq) /\
  ((0 < cz)%nat -> wsum (skipn cn (strat_weights nnzq zerosq cn cz)) = zerosq) /\
  (forall (V : Type) (v0 : V) (S : sparse V) nidx, length nidx = cn ->
     length (strat_weights nnzq zerosq cn cz) = length (strat_vals v0 S nidx cz)).
Proof. exact thm_stratified_weights. Qed.
Print Assumptions C13_stratified_weights.

(* non-vacuity on concrete non-symmetric instances *)
Example C13_example_extreme_draws :
  zuniform_subs [2; 3]%nat [[0; D53 - 1]; [D53 / 2; D53 / 3]] = [[0; 2]; [1; 0]] /\
  forallb (in_rangeZb [2; 3]%nat) (zuniform_subs [2; 3]%nat [[0; D53 - 1]; [D53 / 2; D53 / 3]]) = true.
Proof. exact uniform_extreme_draws_in_range. Qed.
Example C13_example_short_supply :     (* open finding C13-S1 *)
  let S := mkSp [2; 2]%nat [[0; 0]; [1; 0]; [0; 1]]%nat [5; 6; 7] in
  let draws := [[0; 0]; [D53 - 1; D53 - 1]; [D53 - 1; 0]] in
  length (zstrat_subs S [0; 1; 2] [1%nat] draws 2) = 2%nat /\ length (zstrat_vals S [1%nat] 2) = 3%nat.
Proof. exact stratified_short_supply_lengths_differ. Qed.
Example C13_example_solve :     (* estimates 10, 7, 9 (failed), 4: best = epoch 3, the reported trace has all four values *)
  let s := zsolve [10; 7; 9; 4] 1 None 3 in
  cur _ _ _ s = 3%nat /\ zfull_trace [10; 7; 9; 4] s = [10; 7; 9; 4] /\ zreported_trace [10; 7; 9; 4] 3 s = [10; 7; 9; 4] /\
  nfails _ _ _ s = 1%nat.
Proof. exact thm_example_solve. Qed.
Example C13_example_reuse :     (* an Adagrad-like accumulator: with reset_state the second solve on the same object equals the first *)
  let s1 := w_solve (fun _ => 0%nat) (0%nat, 0%nat) in
  cur _ _ _ s1 = 96%nat /\ obj_after _ _ _ s1 = (0%nat, 3%nat) /\ cur _ _ _ (w_solve (fun _ => 0%nat) (obj_after _ _ _ s1)) = 96%nat /\
  cur _ _ _ (w_solve (fun o => o) (obj_after _ _ _ s1)) = 98%nat.
Proof. exact reuse_example_reset. Qed.
Example C13_example_config :
  (fn_config true (10 ^ 9) 250000 None RNone = CStratified 100000 100000 /\
  gr_config true (10 ^ 9) 250000 1000 None RNone = CStratified 1000 1000 /\
  fn_config false 12000000 12000000 None RNone = CUniform 1200000 /\
  gr_config false 12000000 12000000 1000 None RNone = CUniform 120000 /\
  fn_config true 6 5 None RNone = CStratified 5 1 /\
  gr_config true 6 5 1000 (Some Semistratified) (RStrat 2 3) = CSemistrat 2 3)%Z.
Proof. exact config_examples. Qed.
Example C13_example_vec :
  tovec_f nat 0%nat (mkK (1 :: 1 :: nil)%nat (((1 :: 2 :: nil) :: (3 :: 4 :: nil) :: (5 :: 6 :: nil) :: nil) :: ((7 :: 8 :: nil) :: (9 :: 10 :: nil) :: nil) :: nil)%nat)
  = (1 :: 3 :: 5 :: 2 :: 4 :: 6 :: 7 :: 9 :: 8 :: 10 :: nil)%nat.
Proof. exact thm_example_vec. Qed.
