(* Props/W4C07b.v — sptensor.squeeze as GENERATED from /repo/pyttb/sptensor.py on every run (Gen/GenSptensor4b.v; the result
   is a tensor or a number): bridge to the hand reference of Model/W4Squeeze.v and laws.  Only statements, `exact`,
   Print Assumptions. *)
From Coq Require Import List ZArith Arith Bool.
From PV Require Import Np.NpZ Np.NpZ2 Np.NpZ3 Np.NpZ3c Np.NpZ3d Np.NpZ3e Np.NpZ4 Np.NpZ4b Np.NpZ4d Model.W4Squeeze Proofs.W4Squeeze
  Gen.GenSptensor4b.
Import ListNotations.
Local Open Scope Z_scope.

Theorem C07_gen_sp_squeeze_bridge : forall self : sptz, sptensor_squeeze self = H_squeeze self.
Proof. exact squeeze_bridge. Qed.
Print Assumptions C07_gen_sp_squeeze_bridge.

Theorem C07_gen_sp_squeeze_shape : forall self t : sptz, sptensor_squeeze self = Ok (SqTensor t) ->
  spt_shape t = filter (fun d => d >? 1) (spt_shape self) /\ spt_vals t = spt_vals self.
Proof. exact gen_squeeze_shape. Qed.
Print Assumptions C07_gen_sp_squeeze_shape.

Theorem C07_gen_sp_squeeze_scalar : forall (self : sptz) (v : Z), sptensor_squeeze self = Ok (SqScalar v) ->
  filter (fun d => d >? 1) (spt_shape self) = [] /\ (spt_vals self = [v] \/ (spt_vals self = [] /\ v = 0)).
Proof. exact gen_squeeze_scalar. Qed.
Print Assumptions C07_gen_sp_squeeze_scalar.

Example C07_gen_sp_squeeze_example :
  sptensor_squeeze (mkspt [[0; 1; 0; 3]; [0; 0; 0; 1]] [5; -7] [1; 2; 1; 4]) = Ok (SqTensor (mkspt [[1; 3]; [0; 1]] [5; -7] [2; 4])) /\
  sptensor_squeeze (mkspt [[0; 0]] [9] [1; 1]) = Ok (SqScalar 9) /\
  sptensor_squeeze (mkspt [[]] [] [1; 1]) = Ok (SqScalar 0) /\
  sptensor_squeeze (mkspt [[0; 0]; [0; 0]] [9; 4] [1; 1]) = Err /\
  sptensor_squeeze (mkspt [[1; 2]] [3] [2; 3]) = Ok (SqTensor (mkspt [[1; 2]] [3] [2; 3])).
Proof. repeat split; reflexivity. Qed.
