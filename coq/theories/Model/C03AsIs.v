(* Model/C03AsIs.v — sptensor.__mul__ (sparse, sparse) exactly as pyttb computes it today, written against the
   row helper GENERATED from pyttb_utils.py (Gen/GenUtils.v): idxSelf = tt_intersect_rows(self.subs, other.subs),
   idxOther = tt_intersect_rows(other.subs, self.subs), values paired BY POSITION.  Used for the refutation
   theorem of finding A-06 (Props/C03.v); the repaired algorithm is impl_mul in Model/C03Ops.v. *)
From Coq Require Import List ZArith Bool.
From PV Require Import Base.Index Np.NpZ Np.Array Gen.GenUtils Model.Sparse Model.Harness.
Import ListNotations.
Local Open Scope Z_scope.

Definition zrow (i : idx) : vec := map Z.of_nat i.
Fixpoint zip_mul (l1 l2 : list Z) : list Z :=
  match l1, l2 with x :: r1, y :: r2 => x * y :: zip_mul r1 r2 | _, _ => [] end.

Definition impl_mul_asis (A B : sparse Z) : res (sparse Z) :=
  bind (tt_intersect_rows (map zrow (ssubs A)) (map zrow (ssubs B))) (fun idxSelf =>
  bind (tt_intersect_rows (map zrow (ssubs B)) (map zrow (ssubs A))) (fun idxOther =>
  Ok (mkSp (sshape A) (np_take [] (ssubs A) idxSelf)
           (zip_mul (np_take 0 (svals A) idxSelf) (np_take 0 (svals B) idxOther))))).

Definition mul_asis_stmt : Prop :=
  forall A B : sparse Z, wf_sp zisz A -> wf_sp zisz B -> sshape B = sshape A ->
  exists R, impl_mul_asis A B = Ok R /\ forall i, zden_sp R i = zden_sp A i * zden_sp B i.
