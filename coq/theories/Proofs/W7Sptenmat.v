(* Wave 7: bridge  Gen.GenSptenmat7.sptenmat_init = Model.W7Sptenmat.H_sptenmat_init  (all inputs) and laws. *)
From Coq Require Import List ZArith Bool Lia.
From PV Require Import Np.NpZ Np.NpZ2 Np.NpZ3 Np.NpZ7 Np.NpZ7b Gen.GenUtils Gen.GenUtils2 Gen.GenSptenmat7
  Model.W7Tenmat Model.W7Sptenmat Proofs.W7Tenmat.
Import ListNotations.
Local Open Scope Z_scope.

Lemma w7_dims_tail2 (n : Z) (r c : vec) (X : res stmz) :
  bind (if (zlen r =? 0) then Ok c
        else bind (if (zlen c =? 0) then Ok r else Ok (r ++ c)) (fun d => Ok d))
       (fun dims =>
          if ((negb ((zlen dims) =? n)) || (zlen (np_arange 0 n) =? zlen (np_sort dims))) then
            if (((zlen dims) =? n) && (vec_eqb (np_arange 0 n) (np_sort dims))) then X else Err
          else Err)
  = if negb (H_dims_perm n r c) then Err else X.
Proof.
  assert (E : (if (zlen r =? 0) then Ok c
        else bind (if (zlen c =? 0) then Ok r else Ok (r ++ c)) (fun d => Ok d)) = Ok (r ++ c)).
  { destruct (zlen r =? 0) eqn:Er.
    - apply w7_zlen_nil in Er. subst. reflexivity.
    - destruct (zlen c =? 0) eqn:Ec; cbn [bind]; auto. apply w7_zlen_nil in Ec. subst. rewrite app_nil_r. reflexivity. }
  rewrite E. cbn [bind]. unfold H_dims_perm.
  destruct (zlen (r ++ c) =? n) eqn:En; cbn [negb orb andb]; auto.
  destruct (vec_eqb (np_arange 0 n) (np_sort (r ++ c))) eqn:Ev; cbn [negb].
  - apply vec_eqb_eq in Ev. rewrite <- Ev. rewrite Z.eqb_refl. reflexivity.
  - destruct (zlen (np_arange 0 n) =? zlen (np_sort (r ++ c))); reflexivity.
Qed.

Lemma w7_side (z a b c t : bool) (X : res stmz) :
  (if (z || a) && (z || b) && (z || c) then if (z || t) then X else Err else Err)
  = if negb (z || (a && b && c && t)) then Err else X.
Proof. destruct z, a, b, c, t; reflexivity. Qed.

Theorem sptenmat_init_bridge subs vals rdims cdims tshape copy :
  sptenmat_init subs vals rdims cdims tshape copy = H_sptenmat_init subs vals rdims cdims tshape copy.
Proof.
  unfold sptenmat_init, H_sptenmat_init.
  destruct (negb (is_some rdims) && negb (is_some cdims)); [reflexivity|].
  assert (Es : (match subs with None => Ok [@nil Z] | Some s => Ok s end) = Ok (match subs with None => [[]] | Some s => s end))
    by (destruct subs; reflexivity).
  assert (Ev : (match vals with None => Ok (@nil Z) | Some v => Ok v end) = Ok (match vals with None => [] | Some v => v end))
    by (destruct vals; reflexivity).
  rewrite Es, Ev. cbn [bind]. cbv zeta.
  set (s := match subs with None => [[]] | Some s => s end).
  set (v := match vals with None => [] | Some v => v end).
  destruct (gather_wrap_dims (zlen tshape) rdims cdims None) as [[r c]|]; cbn [bind]; [|reflexivity].
  rewrite w7_dims_tail2.
  destruct (negb (H_dims_perm (zlen tshape) r c)); [reflexivity|].
  rewrite w7_side. fold (H_side_ok s tshape r 0).
  destruct (negb (H_side_ok s tshape r 0)); [reflexivity|].
  rewrite w7_side. fold (H_side_ok s tshape c 1).
  destruct (negb (H_side_ok s tshape c 1)); [reflexivity|].
  unfold H_dedup.
  destruct (zlen v =? 0) eqn:Ez; cbn [bind].
  - destruct copy; [|reflexivity].
    unfold H_dropzeros. cbv zeta.
    destruct (np_take_ok (@nil vec) (np7_nonzero [])); cbn [andb]; [|reflexivity].
    destruct (np_take_ok (@nil Z) (np7_nonzero [])); cbn [bind]; [|reflexivity].
    destruct (zlen (np_take 0 [] (np7_nonzero [])) >? 0); reflexivity.
  - destruct copy; cbn [bind]; [|reflexivity].
    destruct (np7_rect s); cbn [bind]; [|reflexivity].
    destruct (np7_unique_rows_inv s) as [u loc].
    destruct (np7_accum_ok loc v (zlen u)); cbn [bind]; [|reflexivity].
    unfold H_dropzeros. cbv zeta.
    destruct (np_take_ok u (np7_nonzero (np7_accum_sum loc v (zlen u)))); cbn [andb]; [|reflexivity].
    destruct (np_take_ok (np7_accum_sum loc v (zlen u)) (np7_nonzero (np7_accum_sum loc v (zlen u)))); cbn [bind]; [|reflexivity].
    destruct (zlen (np_take 0 (np7_accum_sum loc v (zlen u)) (np7_nonzero (np7_accum_sum loc v (zlen u)))) >? 0); reflexivity.
Qed.

(* ------------------------------------------------------------------ laws of the GENERATED constructor *)
Theorem gen_sptenmat_init_empty subs vals tshape copy :
  sptenmat_init subs vals None None tshape copy =
  if negb (is_some subs) && negb (is_some vals) then Ok H_stm_empty else Err.
Proof. rewrite sptenmat_init_bridge. reflexivity. Qed.

Lemma H_dedup_nocopy s v s1 v1 : H_dedup false s v = Ok (s1, v1) -> (zlen v =? 0) = false -> s1 = s /\ v1 = v.
Proof. unfold H_dedup. intros H E. rewrite E in H. injection H as <- <-. auto. Qed.

Theorem gen_sptenmat_init_accept subs vals rdims cdims tshape copy M :
  is_some rdims || is_some cdims = true ->
  sptenmat_init subs vals rdims cdims tshape copy = Ok M ->
  stm7_tshape M = tshape /\
  np_sort (stm7_rdims M ++ stm7_cdims M) = np_arange 0 (zlen tshape) /\
  H_side_ok (match subs with None => [[]] | Some s => s end) tshape (stm7_rdims M) 0 = true /\
  H_side_ok (match subs with None => [[]] | Some s => s end) tshape (stm7_cdims M) 1 = true.
Proof.
  intros Hd. rewrite sptenmat_init_bridge. unfold H_sptenmat_init.
  assert (E : (negb (is_some rdims) && negb (is_some cdims)) = false) by (destruct rdims, cdims; simpl in *; auto; discriminate).
  rewrite E. cbv zeta.
  destruct (gather_wrap_dims (zlen tshape) rdims cdims None) as [[r c]|]; cbn [bind]; [|discriminate].
  destruct (H_dims_perm (zlen tshape) r c) eqn:Ep; cbn [negb]; [|discriminate].
  destruct (H_side_ok _ tshape r 0) eqn:Er; cbn [negb]; [|discriminate].
  destruct (H_side_ok _ tshape c 1) eqn:Ec; cbn [negb]; [|discriminate].
  unfold H_dims_perm in Ep. apply andb_true_iff in Ep. destruct Ep as [_ Ep]. apply vec_eqb_eq in Ep.
  destruct (H_dedup copy _ _) as [[s1 v1]|]; cbn [bind]; [|discriminate].
  destruct copy.
  - destruct (H_dropzeros s1 v1) as [[s2 v2]|]; cbn [bind]; [|discriminate].
    intro H. injection H as <-. cbn [stm7_tshape stm7_rdims stm7_cdims]. auto.
  - intro H. injection H as <-. cbn [stm7_tshape stm7_rdims stm7_cdims]. auto.
Qed.

(* copy=False with values: the stored triples are the arguments as given *)
Theorem gen_sptenmat_init_nocopy subs vals rdims cdims tshape M :
  is_some rdims || is_some cdims = true ->
  zlen (match vals with None => [] | Some v => v end) <> 0 ->
  sptenmat_init subs vals rdims cdims tshape false = Ok M ->
  stm7_subs M = (match subs with None => [[]] | Some s => s end) /\
  stm7_vals M = (match vals with None => [] | Some v => v end).
Proof.
  intros Hd Hv. rewrite sptenmat_init_bridge. unfold H_sptenmat_init.
  assert (E : (negb (is_some rdims) && negb (is_some cdims)) = false) by (destruct rdims, cdims; simpl in *; auto; discriminate).
  rewrite E. cbv zeta.
  destruct (gather_wrap_dims (zlen tshape) rdims cdims None) as [[r c]|]; cbn [bind]; [|discriminate].
  destruct (negb (H_dims_perm (zlen tshape) r c)); [discriminate|].
  destruct (negb (H_side_ok _ tshape r 0)); [discriminate|].
  destruct (negb (H_side_ok _ tshape c 1)); [discriminate|].
  destruct (H_dedup false _ _) as [[s1 v1]|] eqn:Ed; cbn [bind]; [|discriminate].
  apply H_dedup_nocopy in Ed; [|apply Z.eqb_neq; exact Hv]. destruct Ed as [-> ->].
  intro H. injection H as <-. auto.
Qed.

(* a row index at or above the product of the row-mode sizes is rejected (whatever split gather_wrap_dims computes) *)
Theorem gen_sptenmat_init_out_of_range_rejected subs vals rdims cdims tshape copy s :
  subs = Some s -> np_size2 s <> 0 -> is_some rdims || is_some cdims = true ->
  (forall r c, gather_wrap_dims (zlen tshape) rdims cdims None = Ok (r, c) ->
     np_take_ok tshape r = true -> (zprod (np_take 0 tshape r) >? np7_max (np7_col s 0)) = false) ->
  sptenmat_init subs vals rdims cdims tshape copy = Err.
Proof.
  intros -> Hs Hd Hbad. rewrite sptenmat_init_bridge. unfold H_sptenmat_init.
  assert (E : (negb (is_some rdims) && negb (is_some cdims)) = false) by (destruct rdims, cdims; simpl in *; auto; discriminate).
  rewrite E. cbv zeta.
  destruct (gather_wrap_dims (zlen tshape) rdims cdims None) as [[r c]|] eqn:Eg; cbn [bind]; [|reflexivity].
  destruct (negb (H_dims_perm (zlen tshape) r c)); [reflexivity|].
  assert (Ef : H_side_ok s tshape r 0 = false).
  { unfold H_side_ok. apply Z.eqb_neq in Hs. rewrite Hs. cbn [orb].
    destruct (np_take_ok tshape r) eqn:Et; cbn [andb]; auto.
    rewrite (Hbad r c eq_refl Et). rewrite !andb_false_r. reflexivity. }
  rewrite Ef. reflexivity.
Qed.

Example sptenmat_init_example :
  sptenmat_init (Some [[1; 0]; [0; 2]; [1; 0]; [1; 1]]) (Some [5; 7; -5; 3]) (Some [1]) None [3; 2] true
  = Ok (mk_stmz [[0; 2]; [1; 1]] [7; 3] [1] [0] [3; 2]).
Proof. vm_compute. reflexivity. Qed.
Example sptenmat_init_example_nocopy :
  sptenmat_init (Some [[1; 0]; [0; 2]; [1; 0]]) (Some [5; 7; -5]) (Some [1]) (Some [0]) [3; 2] false
  = Ok (mk_stmz [[1; 0]; [0; 2]; [1; 0]] [5; 7; -5] [1] [0] [3; 2]).
Proof. vm_compute. reflexivity. Qed.
Example sptenmat_init_example_reject :
  sptenmat_init (Some [[2; 0]]) (Some [5]) (Some [1]) (Some [0]) [3; 2] true = Err.
Proof. vm_compute. reflexivity. Qed.
