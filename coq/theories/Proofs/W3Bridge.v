(* Proofs/W3Bridge.v — bridge lemmas  Gen.f = H.f  for the functions of Gen/GenUtils3.v (the only proofs that depend on
   the shape of the generated text). *)
From Coq Require Import List ZArith Arith Bool Lia.
From PV Require Import Np.NpZ Np.NpZ2 Np.NpZ3 Proofs.NpZProofs Gen.GenUtils3 Model.W3Utils.
Import ListNotations.
Local Open Scope Z_scope.

(* ------------------------------------------------------------------------------------------ *)
(* generic loop facts                                                                           *)
(* ------------------------------------------------------------------------------------------ *)

Lemma zlen_nonneg {A} (l : list A) : 0 <= zlen l.
Proof. unfold zlen. lia. Qed.

Lemma idx_ok_nat {A} (l : list A) (k : nat) : idx_ok l (Z.of_nat k) = (k <? length l)%nat.
Proof.
  unfold idx_ok, zlen. destruct (Nat.ltb_spec k (length l)).
  - apply andb_true_intro. split; [apply Z.leb_le|apply Z.ltb_lt]; lia.
  - apply andb_false_intro2. apply Z.ltb_ge. lia.
Qed.

Lemma np_arange_0 n : np_arange 0 (Z.of_nat n) = map Z.of_nat (seq 0 n).
Proof. unfold np_arange. rewrite Z.sub_0_r, Nat2Z.id. apply map_ext. intros. lia. Qed.

Lemma map_seq_shift {B} (f : nat -> B) a n : map f (seq (S a) n) = map (fun k => f (S k)) (seq a n).
Proof. rewrite <- seq_shift, map_map. reflexivity. Qed.

(* a loop whose body never breaks is a monadic fold *)
Fixpoint foldM {X S} (step : X -> S -> res S) (l : list X) (s : S) : res S :=
  match l with
  | [] => Ok s
  | x :: l' => bind (step x s) (foldM step l')
  end.

Lemma np_for_foldM {X S} (body : X -> S -> res (bool * S)) (step : X -> S -> res S) l :
  (forall x s, In x l -> body x s = bind (step x s) (fun s' => Ok (false, s'))) ->
  forall s, np_for l body s = foldM step l s.
Proof.
  induction l as [|x l IH]; intros Hb s; [reflexivity|].
  cbn [np_for foldM]. rewrite Hb by (left; reflexivity).
  destruct (step x s) as [s'|]; cbn [bind fst snd]; [|reflexivity].
  apply IH. intros y t Hy. apply Hb. right. exact Hy.
Qed.

Lemma foldM_ext {X S} (f g : X -> S -> res S) l :
  (forall x s, In x l -> f x s = g x s) -> forall s, foldM f l s = foldM g l s.
Proof.
  induction l as [|x l IH]; intros H s; [reflexivity|].
  cbn [foldM]. rewrite H by (left; reflexivity). destruct (g x s); cbn [bind]; [|reflexivity].
  apply IH. intros. apply H. right. assumption.
Qed.

(* ------------------------------------------------------------------------------------------ *)
(* tt_renumberdim                                                                               *)
(* ------------------------------------------------------------------------------------------ *)

Definition fill_step (nr : pyidx) (i : Z) (m : vec) : res vec :=
  if ix_idx_ok nr i && idx_ok m (ix_nth nr i) then Ok (np_set m (ix_nth nr i) i) else Err.

Definition seq_of (nr : pyidx) : vec := match nr with IxSeq l | IxArr l => l | _ => [] end.

Lemma fill_loop nr : ix_len_ok nr = true ->
  forall c j m, (j + c <= length (seq_of nr))%nat ->
  foldM (fill_step nr) (map Z.of_nat (seq j c)) m = fill_from m (firstn c (skipn j (seq_of nr))) (Z.of_nat j).
Proof.
  intros Hnr. induction c as [|c IH]; intros j m Hle; [reflexivity|].
  cbn [seq map foldM].
  assert (Hj : (j < length (seq_of nr))%nat) by lia.
  assert (Hs : skipn j (seq_of nr) = nth j (seq_of nr) 0 :: skipn (S j) (seq_of nr)).
  { clear -Hj. revert j Hj. induction (seq_of nr) as [|x l IHl]; intros j Hj; [cbn in Hj; lia|].
    destruct j; [reflexivity|]. cbn [skipn nth]. apply IHl. cbn in Hj. lia. }
  rewrite Hs. cbn [firstn fill_from]. unfold fill_step at 1.
  assert (E1 : ix_idx_ok nr (Z.of_nat j) = true).
  { destruct nr; try discriminate; cbn [ix_idx_ok seq_of] in *; rewrite idx_ok_nat; apply Nat.ltb_lt; exact Hj. }
  assert (E2 : ix_nth nr (Z.of_nat j) = nth j (seq_of nr) 0).
  { destruct nr; try discriminate; cbn [ix_nth seq_of]; apply znth_nat. }
  rewrite E1, E2. cbn [andb].
  destruct (idx_ok m (nth j (seq_of nr) 0)); cbn [bind]; [|reflexivity].
  rewrite IH by lia. f_equal. lia.
Qed.

Lemma firstn_all2 {A} (l : list A) : firstn (length l) l = l.
Proof. apply firstn_all. Qed.

Lemma tt_renumberdim_bridge idx shape nr : tt_renumberdim idx shape nr = H_renumberdim idx shape nr.
Proof.
  unfold tt_renumberdim, H_renumberdim.
  assert (L : forall nr' n, ix_len_ok nr' = true -> (n <= length (seq_of nr'))%nat -> forall m,
            np_for (np_arange 0 (Z.of_nat n)) (fun i idx_map =>
              if ix_idx_ok nr' i && idx_ok idx_map (ix_nth nr' i) then Ok (false, np_set idx_map (ix_nth nr' i) i) else Err) m
            = fill_from m (firstn n (seq_of nr')) 0).
  { intros nr' n Hok Hn m. rewrite np_arange_0.
    rewrite (np_for_foldM _ (fill_step nr')).
    - rewrite (fill_loop nr' Hok n 0%nat m) by lia. reflexivity.
    - intros x s _. unfold fill_step. destruct (ix_idx_ok nr' x && idx_ok s (ix_nth nr' x)); reflexivity. }
  destruct nr as [k|s|l|l|]; cbn [H_selection bind fst snd].
  - (* int *)
    unfold np_zeros_ok. destruct (0 <=? shape); [|reflexivity].
    change 0 with (Z.of_nat 0) at 2. rewrite (L (IxSeq [k]) 0%nat eq_refl) by (cbn; lia).
    cbn [firstn fill_from bind Z.to_nat]. reflexivity.
  - (* slice *)
    destruct (slice_ok s); cbn [bind fst snd]; [|reflexivity].
    unfold np_zeros_ok. destruct (0 <=? shape); [|reflexivity].
    set (sel := py_slice 0 (np_arange 0 shape) s).
    unfold zlen at 1. rewrite (L (IxSeq sel) (length sel) eq_refl) by (cbn; lia).
    unfold zlen. rewrite Nat2Z.id. reflexivity.
  - cbn [ix_is_list ix_is_arr orb ix_len_ok ix_len bind].
    unfold np_zeros_ok. destruct (0 <=? shape); [|reflexivity].
    unfold zlen at 1. rewrite (L (IxSeq l) (length l) eq_refl) by (cbn; lia).
    unfold zlen. rewrite Nat2Z.id. reflexivity.
  - cbn [ix_is_list ix_is_arr orb ix_len_ok ix_len bind].
    unfold np_zeros_ok. destruct (0 <=? shape); [|reflexivity].
    unfold zlen at 1. rewrite (L (IxArr l) (length l) eq_refl) by (cbn; lia).
    unfold zlen. rewrite Nat2Z.id. reflexivity.
  - reflexivity.
Qed.

(* ------------------------------------------------------------------------------------------ *)
(* tt_renumber                                                                                  *)
(* ------------------------------------------------------------------------------------------ *)

Lemma H_renumber_loop_foldM step l st : H_renumber_loop step l st = foldM step l st.
Proof. revert st. induction l as [|i l IH]; intros st; [reflexivity|]. cbn. destruct (step i st); cbn; auto. Qed.

Lemma fullslice_is_slice r : ix_is_fullslice r = true -> ix_is_slice r = true.
Proof. destruct r; try discriminate. reflexivity. Qed.

(* the generated loop against the hand reference, for the admissibility test `g` of the text at hand: the current source
   (every entry is compared with slice(None, None, None): ix_eq_ok) or the repaired one (fixes/W3-N01: no entry is refused).
   Both proofs are kept; the one that fits the regenerated text is used. *)
Lemma tt_renumber_bridge :
  exists g : pyidx -> bool, (forall r, ix_eq_ok r = true -> g r = true) /\
    forall subs shape nrs, tt_renumber subs shape nrs = H_renumber g subs shape nrs.
Proof.
  first
  [ (* current source *)
    exists ix_eq_ok; split; [auto|]; intros subs shape nrs;
    unfold tt_renumber, H_renumber; rewrite H_renumber_loop_foldM;
    rewrite (np_for_foldM _ (H_renumber_step ix_eq_ok tt_renumberdim subs shape nrs));
    [ rewrite (foldM_ext _ (H_renumber_step ix_eq_ok H_renumberdim subs shape nrs));
      [ destruct (foldM _ _ _) as [[a b]|]; reflexivity
      | intros i st _; unfold H_renumber_step;
        destruct (idx_ok nrs i && ix_eq_ok (znth IxNone nrs i)); [|reflexivity];
        destruct (ix_is_fullslice _); [reflexivity|]; destruct (np_size2 subs =? 0); [reflexivity|];
        destruct (np_col_ok subs i && idx_ok shape i); [|reflexivity]; now rewrite tt_renumberdim_bridge ]
    | intros i [nsh nsu] _; unfold H_renumber_step; cbn [fst snd];
      destruct (idx_ok nrs i) eqn:E1; cbn [andb]; [|reflexivity];
      destruct (ix_eq_ok (znth IxNone nrs i)) eqn:E2; [|reflexivity];
      destruct (ix_is_fullslice (znth IxNone nrs i)) eqn:E3; cbn [negb bind]; [reflexivity|];
      destruct (np_size2 subs =? 0) eqn:E4;
      [ destruct (znth IxNone nrs i) as [k|s|l|l|] eqn:Er; cbn [ix_is_slice negb H_empty_size ix_is_int orb ix_len_ok ix_len bind andb];
        [ destruct (idx_ok nsh i); reflexivity
        | destruct (idx_ok shape i); cbn [andb bind]; [|reflexivity];
          destruct (slice_ok s); cbn [andb bind]; [|reflexivity]; destruct (idx_ok nsh i); reflexivity
        | destruct (idx_ok nsh i); reflexivity
        | destruct (idx_ok nsh i); reflexivity
        | reflexivity ]
      | destruct (np_col_ok subs i); cbn [andb]; [|reflexivity];
        destruct (idx_ok shape i); cbn [andb]; [|reflexivity];
        destruct (tt_renumberdim _ _ _) as [[c n]|]; cbn [bind fst snd]; [|reflexivity];
        destruct (np_setcol_ok nsu i c); cbn [andb]; [|reflexivity];
        destruct (idx_ok nsh i); reflexivity ] ]
  | (* repaired source (fixes/W3-N01-renumber-ndarray-key.diff) *)
    exists (fun r => negb (ix_is_slice r) || ix_eq_ok r); split; [intros r Hr; rewrite Hr; apply orb_true_r|]; intros subs shape nrs;
    unfold tt_renumber, H_renumber; rewrite H_renumber_loop_foldM;
    rewrite (np_for_foldM _ (H_renumber_step (fun r => negb (ix_is_slice r) || ix_eq_ok r) tt_renumberdim subs shape nrs));
    [ rewrite (foldM_ext _ (H_renumber_step (fun r => negb (ix_is_slice r) || ix_eq_ok r) H_renumberdim subs shape nrs));
      [ destruct (foldM _ _ _) as [[a b]|]; reflexivity
      | intros i st _; unfold H_renumber_step;
        destruct (idx_ok nrs i && _); [|reflexivity];
        destruct (ix_is_fullslice _); [reflexivity|]; destruct (np_size2 subs =? 0); [reflexivity|];
        destruct (np_col_ok subs i && idx_ok shape i); [|reflexivity]; now rewrite tt_renumberdim_bridge ]
    | intros i [nsh nsu] _; unfold H_renumber_step; cbn [fst snd];
      destruct (idx_ok nrs i) eqn:E1; cbn [andb]; [|reflexivity];
      destruct (negb (ix_is_slice (znth IxNone nrs i)) || ix_eq_ok (znth IxNone nrs i)) eqn:E2; [|reflexivity];
      destruct (ix_is_fullslice (znth IxNone nrs i)) eqn:E3;
      [ rewrite (fullslice_is_slice _ E3); cbn [andb negb bind]; reflexivity |];
      rewrite andb_false_r; cbn [negb bind];
      destruct (np_size2 subs =? 0) eqn:E4;
      [ destruct (znth IxNone nrs i) as [k|s|l|l|] eqn:Er; cbn [ix_is_slice negb H_empty_size ix_is_int orb ix_len_ok ix_len bind andb];
        [ destruct (idx_ok nsh i); reflexivity
        | destruct (idx_ok shape i); cbn [andb bind]; [|reflexivity];
          destruct (slice_ok s); cbn [andb bind]; [|reflexivity]; destruct (idx_ok nsh i); reflexivity
        | destruct (idx_ok nsh i); reflexivity
        | destruct (idx_ok nsh i); reflexivity
        | reflexivity ]
      | destruct (np_col_ok subs i); cbn [andb]; [|reflexivity];
        destruct (idx_ok shape i); cbn [andb]; [|reflexivity];
        destruct (tt_renumberdim _ _ _) as [[c n]|]; cbn [bind fst snd]; [|reflexivity];
        destruct (np_setcol_ok nsu i c); cbn [andb]; [|reflexivity];
        destruct (idx_ok nsh i); reflexivity ] ] ].
Qed.

(* ------------------------------------------------------------------------------------------ *)
(* tt_irenumber                                                                                 *)
(* ------------------------------------------------------------------------------------------ *)

Lemma H_irenumber_loop_foldM shape l ns :
  H_irenumber_loop shape l ns = foldM (fun ir => H_irenumber_step shape (fst ir) (snd ir)) l ns.
Proof.
  revert ns. induction l as [|[i r] l IH]; intros ns; [reflexivity|]. cbn.
  destruct (H_irenumber_step shape i r ns); cbn; auto.
Qed.

Lemma tt_irenumber_bridge t shape nrs : tt_irenumber t shape nrs = H_irenumber t shape nrs.
Proof.
  unfold tt_irenumber, H_irenumber. destruct (spt_nnz t =? 0); [reflexivity|].
  rewrite H_irenumber_loop_foldM.
  rewrite (np_for_foldM _ (fun ir => H_irenumber_step shape (fst ir) (snd ir))).
  - destruct (foldM _ _ _); reflexivity.
  - intros [i r] ns _. cbn [fst snd]. unfold H_irenumber_step.
    destruct r as [k|s|l|l|]; cbn [bind ix_is_arr negb ix_asarray].
    + destruct (np_insert_col_ok ns i); reflexivity.
    + destruct (opt_truthy (sl_stop s) || idx_ok shape i); [|reflexivity].
      destruct (np_col_ok ns i && _ && _); reflexivity.
    + destruct (np_col_ok ns i && _ && _); reflexivity.
    + destruct (np_col_ok ns i && _ && _); reflexivity.
    + destruct (np_col_ok ns i && _ && _); reflexivity.
Qed.

(* ------------------------------------------------------------------------------------------ *)
(* get_index_variant                                                                            *)
(* ------------------------------------------------------------------------------------------ *)

(* how a key is classified: ints and slices index linearly, a 1-d array is a list of linear indices, any other array a
   subscript array, a tuple a subtensor request, a list that starts with an int a list of linear indices (building
   the array raises when a later element is a list, and `indices[0]` raises on the empty list), anything else unknown *)
Definition H_index_variant (k : pykey) : res IndexVariant :=
  match k with
  | KInt _ | KSlice _ => Ok LINEAR
  | KArr a => Ok (if nd_ndim a =? 1 then LINEAR else SUBSCRIPTS)
  | KTuple _ => Ok SUBTENSOR
  | KList [] => Err
  | KList (EInt _ :: l) => if forallb elem_is_int l then Ok LINEAR else Err
  | KList (EList _ :: _) => Ok UNKNOWN
  | KNone => Ok UNKNOWN
  end.

Lemma get_index_variant_bridge k : get_index_variant k = H_index_variant k.
Proof.
  unfold get_index_variant, H_index_variant.
  destruct k as [z|s|a|l|l|]; cbn [key_is_int key_is_slice orb bind]; try reflexivity.
  - destruct (nd_ndim a =? 1); reflexivity.
  - cbn [key_is_tuple key_is_list orb negb andb key_idx_ok key_is_seq key_elems].
    destruct l as [|e l]; [reflexivity|].
    assert (E : idx_ok (e :: l) 0 = true).
    { unfold idx_ok, zlen. cbn [length]. apply andb_true_intro. split; [apply Z.leb_le|apply Z.ltb_lt]; lia. }
    rewrite E. cbn [key_nth key_elems znth]. change (znth (EInt 0) (e :: l) 0) with e.
    destruct e as [z|r]; cbn [elem_is_int andb bind]; [|reflexivity].
    unfold key_asarray_ok, key_asarray. cbn [key_elems elems_all_int forallb elem_is_int andb elems_rows is_some orb].
    destruct (forallb elem_is_int l); cbn [orb]; [|reflexivity].
    cbn [nd_shape nd_ndim]. unfold nd_ndim. cbn [nd_shape zlen length Z.of_nat Z.eqb Pos.eqb orb bind]. reflexivity.
Qed.

(* ------------------------------------------------------------------------------------------ *)
(* get_mttkrp_factors                                                                           *)
(* ------------------------------------------------------------------------------------------ *)

Lemma get_mttkrp_factors_bridge U n ndims : get_mttkrp_factors U n ndims = H_mttkrp_factors U n ndims.
Proof.
  assert (A : forall l : list mat,
    (if zlen l =? ndims then
       if (0 <=? n) && (n <? ndims) then
         if forallb (fun i_9 => idx_ok l i_9) (filter (fun i_9 => negb (i_9 =? n)) (np_arange 0 ndims)) then
           if zlen (np_unique (map (fun i_9 => np_ncols (znth [] l i_9)) (filter (fun i_9 => negb (i_9 =? n)) (np_arange 0 ndims)))) >? 1
           then Err else Ok l
         else Err
       else Err
     else Err) = accept_factors l n ndims).
  { intros l. unfold accept_factors, cols_agree, others.
    destruct (zlen l =? ndims); cbn [andb]; [|reflexivity]. destruct ((0 <=? n) && (n <? ndims)); [|reflexivity].
    destruct (forallb _ _); [|reflexivity]. destruct (_ >? 1); reflexivity. }
  unfold get_mttkrp_factors, H_mttkrp_factors, absorb_mode.
  destruct U as [k|l]; cbn [bind].
  - destruct (n =? 0).
    + destruct (kt_redistribute_ok k 1); cbn [bind]; [|reflexivity]. apply A.
    + destruct (kt_redistribute_ok k 0); cbn [bind]; [|reflexivity]. apply A.
  - apply A.
Qed.

(* ------------------------------------------------------------------------------------------ *)
(* shape / subscript / value checks, isrow / isvector / islogical                               *)
(* ------------------------------------------------------------------------------------------ *)

Lemma iter_ok_finite a : ndb_iter_ok (nd_isfinite a) = (nd_ndim a =? 1).
Proof. reflexivity. Qed.
Lemma iter_ok_gt a c : ndb_iter_ok (nd_gt_s a c) = (nd_ndim a =? 1).
Proof. reflexivity. Qed.

Lemma tt_sizecheck_bridge a nargout : tt_sizecheck a nargout = check_result (size_ok a) nargout.
Proof.
  unfold tt_sizecheck, check_result, size_ok. rewrite iter_ok_finite, iter_ok_gt.
  destruct (nd_ndim a =? 1); cbn [negb orb andb bind].
  - destruct (ndb_all (nd_isfinite a)); cbn [andb negb orb bind].
    + destruct (nd_is_integer a); cbn [andb negb orb bind].
      * destruct (ndb_all (nd_gt_s a 0)); cbn [orb bind]; [reflexivity|]. destruct (nd_size a =? 0); reflexivity.
      * destruct (nd_size a =? 0); reflexivity.
    + destruct (nd_size a =? 0); reflexivity.
  - destruct (nd_size a =? 0); reflexivity.
Qed.

Lemma tt_subscheck_bridge a nargout : tt_subscheck a nargout = check_result (subs_ok a) nargout.
Proof.
  unfold tt_subscheck, check_result, subs_ok.
  destruct (nd_size a =? 0); cbn [orb bind]; [reflexivity|].
  destruct ((nd_ndim a =? 2) && ndb_all (nd_isfinite a) && nd_is_integer a && ndb_all (nd_ge_s a 0)); reflexivity.
Qed.

Lemma tt_valscheck_bridge a nargout : tt_valscheck a nargout = check_result (vals_ok a) nargout.
Proof.
  unfold tt_valscheck, check_result, vals_ok.
  destruct (nd_size a =? 0); cbn [orb bind]; [reflexivity|].
  unfold nd_ndim. destruct (nd_shape a) as [|r [|c [|x s]]]; try reflexivity.
  - assert (E : idx_ok [r; c] 1 = true) by reflexivity. rewrite E.
    cbn [zlen length Z.of_nat Z.eqb Pos.of_succ_nat Pos.succ Pos.eqb negb orb andb bind].
    destruct (znth 0 [r; c] 1 =? 1); reflexivity.
  - replace (zlen (r :: c :: x :: s) =? 2) with false by (symmetry; apply Z.eqb_neq; unfold zlen; cbn [length]; lia).
    reflexivity.
Qed.

Lemma isrow_bridge v : isrow v = Ok (H_isrow v).
Proof.
  unfold isrow, H_isrow, nd_ndim. destruct (nd_shape v) as [|r [|c [|x s]]]; try reflexivity.
  - change (znth 0 [r; c] 0) with r. change (znth 0 [r; c] 1) with c.
    assert (E0 : idx_ok [r; c] 0 = true) by reflexivity. assert (E1 : idx_ok [r; c] 1 = true) by reflexivity.
    rewrite E0, E1. cbn [zlen length Z.of_nat Z.eqb Pos.of_succ_nat Pos.succ Pos.eqb negb orb andb].
    destruct (r =? 1); reflexivity.
  - replace (zlen (r :: c :: x :: s) =? 2) with false by (symmetry; apply Z.eqb_neq; unfold zlen; cbn [length]; lia).
    reflexivity.
Qed.

Lemma isvector_bridge a : isvector a = Ok (H_isvector a).
Proof.
  unfold isvector, H_isvector, nd_ndim. destruct (nd_shape a) as [|r [|c [|x s]]]; try reflexivity.
  - change (znth 0 [r; c] 0) with r. change (znth 0 [r; c] 1) with c.
    assert (E0 : idx_ok [r; c] 0 = true) by reflexivity. assert (E1 : idx_ok [r; c] 1 = true) by reflexivity.
    rewrite E0, E1. cbn [zlen length Z.of_nat Z.eqb Pos.of_succ_nat Pos.succ Pos.eqb negb orb andb].
    destruct (r =? 1); reflexivity.
  - replace (zlen (r :: c :: x :: s) =? 2) with false by (symmetry; apply Z.eqb_neq; unfold zlen; cbn [length]; lia).
    replace (zlen (r :: c :: x :: s) =? 1) with false by (symmetry; apply Z.eqb_neq; unfold zlen; cbn [length]; lia).
    reflexivity.
Qed.

Lemma islogical_bridge a : islogical a = Ok false.
Proof. reflexivity. Qed.
