#!/bin/sh
# usage: [OUTDIR=<dir>] confirm_seed.sh <PROP> <A|B>  — independently confirm a sub-agent's mutant from $OUTDIR (default /tmp/mut-<PROP>-out/):
# (1) patch applies to a clean worktree, (2) pinned test suite still passes, (3) demo fails with the patch, (4) demo passes without.
P="$1"; X="$2"; OUT="${OUTDIR:-/tmp/mut-$P-out}"; WT=/tmp/confwt.$$
D=/verif/seeded/$P-$X; mkdir -p "$D"
git -C /repo worktree add -q --detach "$WT" HEAD || exit 2
cd "$WT"
PYTHONPATH="$WT" /venv/bin/python "$OUT/${X}_demo.py" >/tmp/conf.$$.clean 2>&1; rc_clean=$?
git apply "$OUT/$X.diff" || { echo "patch does not apply"; git -C /repo worktree remove --force "$WT"; exit 2; }
PYTHONPATH="$WT" /venv/bin/python -m pytest -q -p no:cacheprovider --timeout=900 --continue-on-collection-errors 2>&1 | tail -1 > /tmp/conf.$$.tests
PYTHONPATH="$WT" /venv/bin/python "$OUT/${X}_demo.py" >/tmp/conf.$$.mut 2>&1; rc_mut=$?
cd /; git -C /repo worktree remove --force "$WT"
cp "$OUT/$X.diff" "$D/patch.diff"; cp "$OUT/${X}_demo.py" "$D/demo.py"; cp "$OUT/$X.md" "$D/description.md"
echo "$P-$X: demo clean rc=$rc_clean, demo mutated rc=$rc_mut, tests: $(cat /tmp/conf.$$.tests)"
printf '{"demo_rc_clean": %s, "demo_rc_mutated": %s, "tests_with_patch": "%s"}\n' "$rc_clean" "$rc_mut" "$(cat /tmp/conf.$$.tests | tr -d '"')" > "$D/confirm.json"
rm -f /tmp/conf.$$.*
