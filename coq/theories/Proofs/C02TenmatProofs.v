(* Proofs/C02TenmatProofs.v — the matricisation route of pyttb/tensor.py (to_tenmat / tenmat product / to_tensor) and the
   kernels built on it (ttt, collapse with any reducer, contract, scale, mask) equal the defining sums of Model/C02Spec.v on the
   denotation of their operands, for all shapes and all values of a commutative ring. *)
From Coq Require Import List Arith Lia Bool Permutation Ring.
From PV Require Import Base.Index Base.Perm Base.Sum Np.Array Model.Sparse Model.Repr Model.C02Spec Model.C02Dense Model.C02Tenmat
                       Proofs.C02DenseProofs Proofs.C02MttkrpProofs.
Import ListNotations.

(* ---------------------------------------------------------------- index helpers (no ring) *)
Lemma c02_inb_nth s i : inb s i = true <-> (length i = length s /\ forall k, k < length s -> nth k i 0 < nth k s 0).
Proof.
  revert i; induction s as [|d s IH]; intros [|x i]; cbn [inb length]; split; intros H; try discriminate; try (destruct H; discriminate).
  - split; auto. intros; lia.
  - reflexivity.
  - apply andb_true_iff in H as [Hx Hi]. apply Nat.ltb_lt in Hx. apply IH in Hi as [HL Hk].
    split; [lia|]. intros [|k] Hlt; cbn; auto. apply Hk. lia.
  - destruct H as [HL Hk]. apply andb_true_iff; split.
    + apply Nat.ltb_lt. apply (Hk 0). lia.
    + apply IH. split; [lia|]. intros k Hlt. apply (Hk (S k)). lia.
Qed.

Lemma c02_inb_pick_sub s i q : inb s i = true -> (forall k, In k q -> k < length s) ->
  inb (pick 0 q s) (pick 0 q i) = true.
Proof.
  intros Hi Hq. apply c02_inb_nth in Hi as [HL Hk].
  induction q as [|a q IH]; [reflexivity|]. cbn [pick map inb].
  apply andb_true_iff; split.
  - apply Nat.ltb_lt. apply Hk. apply Hq. cbn; auto.
  - apply IH. intros; apply Hq; cbn; auto.
Qed.

Lemma c02_pick_app {A} (d : A) p q (l : list A) : pick d (p ++ q) l = pick d p l ++ pick d q l.
Proof. unfold pick. apply map_app. Qed.

Lemma c02_seq_perm n : is_perm (seq 0 n) n.
Proof. unfold is_perm. apply Permutation_refl. Qed.

Lemma c02_pick_invperm_seq {A} (d : A) (l : list A) : pick d (invperm (seq 0 (length l))) l = l.
Proof.
  rewrite <- (pick_seq d l) at 2.
  apply (pick_invperm_pick d (seq 0 (length l)) (length l)); [apply c02_seq_perm|reflexivity].
Qed.

Lemma c02_perm_in_lt p n k : is_perm p n -> In k p -> k < n.
Proof. intros H Hk. now apply (is_perm_In p n k H). Qed.

Lemma c02_perm_app_l r c n k : is_perm (r ++ c) n -> In k r -> k < n.
Proof. intros H Hk. apply (c02_perm_in_lt _ _ _ H). apply in_or_app; auto. Qed.

Lemma c02_perm_app_r r c n k : is_perm (r ++ c) n -> In k c -> k < n.
Proof. intros H Hk. apply (c02_perm_in_lt _ _ _ H). apply in_or_app; auto. Qed.

Section P.
Variable V : Type.
Variables (v0 v1 : V) (vadd vmul vsub : V -> V -> V) (vopp : V -> V).
Hypothesis Vring : ring_theory v0 v1 vadd vmul vsub vopp (@eq V).
Add Ring Vr7 : Vring.

Local Notation "x + y" := (vadd x y).
Local Notation "x * y" := (vmul x y).
Local Notation den := (den_dense v0).
Local Notation Sn := (sum_n v0 vadd).

(* ---------------------------------------------------------------- to_tenmat *)
Lemma dshape_to_tenmat (X : dense V) rd cd :
  dshape (impl_to_tenmat v0 X rd cd) = [size (pick 0 rd (dshape X)); size (pick 0 cd (dshape X))].
Proof. unfold impl_to_tenmat, np_reshapeF. apply dshape_tabulate. Qed.

Lemma den_to_tenmat (X : dense V) rd cd a b :
  a < size (pick 0 rd (dshape X)) -> b < size (pick 0 cd (dshape X)) ->
  den (impl_to_tenmat v0 X rd cd) [a; b] =
  den X (unpick (rd ++ cd) (ind2sub (pick 0 rd (dshape X)) a ++ ind2sub (pick 0 cd (dshape X)) b)).
Proof.
  intros Ha Hb. unfold impl_to_tenmat.
  set (rs := pick 0 rd (dshape X)) in *. set (cs := pick 0 cd (dshape X)) in *.
  rewrite den_reshapeF.
  - unfold np_transpose at 2. rewrite dshape_tabulate. rewrite c02_pick_app. fold rs cs.
    rewrite sub2ind_2. rewrite ind2sub_app by auto.
    unfold np_transpose. rewrite den_tabulate; [reflexivity|].
    rewrite c02_pick_app. fold rs cs. rewrite inb_app by apply ind2sub_length.
    now rewrite !inb_ind2sub.
  - apply wf_tabulate.
  - unfold np_transpose. rewrite dshape_tabulate, c02_pick_app, size_app. fold rs cs. cbn. lia.
  - cbn [inb]. apply Nat.ltb_lt in Ha, Hb. now rewrite Ha, Hb.
Qed.

(* ---------------------------------------------------------------- to_tensor *)
Lemma to_tensor_always_transposes (M : dense V) rd cd tshape :
  is_perm (rd ++ cd) (length tshape) ->
  impl_to_tensor v0 M rd cd tshape =
  np_transpose v0 (np_reshapeF v0 M (pick 0 (rd ++ cd) tshape)) (invperm (rd ++ cd)).
Proof.
  intros Hp. unfold impl_to_tensor.
  destruct (Nat.ltb_spec 1 (length (rd ++ cd))) as [H|H]; [reflexivity|].
  symmetry. apply (np_transpose_small V v0).
  - apply wf_tabulate.
  - unfold np_reshapeF. rewrite dshape_tabulate, pick_length. exact H.
  - unfold np_reshapeF. rewrite dshape_tabulate, pick_length.
    pose proof (is_perm_length _ _ Hp) as HL. rewrite HL. rewrite <- HL at 1.
    rewrite <- HL in Hp. now apply invperm_is_perm.
Qed.

Lemma dshape_to_tensor (M : dense V) rd cd tshape : is_perm (rd ++ cd) (length tshape) ->
  dshape (impl_to_tensor v0 M rd cd tshape) = tshape.
Proof.
  intros Hp. rewrite to_tensor_always_transposes by auto.
  unfold np_transpose, np_reshapeF. rewrite !dshape_tabulate.
  now apply (pick_invperm_pick 0 (rd ++ cd) (length tshape)).
Qed.

Lemma wf_to_tensor (M : dense V) rd cd tshape : is_perm (rd ++ cd) (length tshape) ->
  wf_dense (impl_to_tensor v0 M rd cd tshape).
Proof. intros Hp. rewrite to_tensor_always_transposes by auto. apply wf_tabulate. Qed.

Lemma den_to_tensor (M : dense V) rd cd tshape i : is_perm (rd ++ cd) (length tshape) ->
  inb tshape i = true ->
  den (impl_to_tensor v0 M rd cd tshape) i =
  nth (sub2ind (pick 0 (rd ++ cd) tshape) (pick 0 (rd ++ cd) i)) (ddata M) v0.
Proof.
  intros Hp Hi. rewrite to_tensor_always_transposes by auto.
  set (p := rd ++ cd) in *.
  pose proof (inb_length _ _ Hi) as HLi.
  unfold np_transpose. rewrite den_tabulate.
  2:{ unfold np_reshapeF. rewrite dshape_tabulate. now rewrite (pick_invperm_pick 0 p (length tshape)). }
  rewrite (invperm_invperm p (length tshape) Hp).
  unfold np_reshapeF. rewrite den_tabulate; [reflexivity|].
  apply c02_inb_pick_sub; auto. intros k Hk. now apply (c02_perm_in_lt p).
Qed.

(* ---------------------------------------------------------------- tensor.ttt *)
Lemma dshape_matmul (a b : dense V) : dshape (matmul v0 vadd vmul a b) = [nth 0 (dshape a) 0; nth 1 (dshape b) 0].
Proof. unfold matmul. apply dshape_tabulate. Qed.

Lemma den_2d_nth (C : dense V) A B x c : dshape C = [A; B] -> x < A -> c < B ->
  den C [x; c] = nth (Nat.add x (Nat.mul A c)) (ddata C) v0.
Proof.
  intros HS Hx Hc. unfold den_dense. rewrite HS. cbn [inb]. apply Nat.ltb_lt in Hx, Hc. rewrite Hx, Hc. cbn [andb].
  now rewrite sub2ind_2.
Qed.

Lemma ttt_core (X Y : dense V) sd od i j :
  let s1 := dshape X in let s2 := dshape Y in
  let r1 := compl (length s1) sd in let r2 := compl (length s2) od in
  pick 0 sd s1 = pick 0 od s2 ->
  inb (pick 0 r1 s1) i = true -> inb (pick 0 r2 s2) j = true ->
  den (matmul v0 vadd vmul (impl_to_tenmat v0 X r1 sd) (impl_to_tenmat v0 Y od r2))
      [sub2ind (pick 0 r1 s1) i; sub2ind (pick 0 r2 s2) j] =
  spec_ttt v0 vadd vmul (den X) s1 (den Y) s2 sd od (i ++ j).
Proof.
  intros s1 s2 r1 r2 Hm Hi Hj.
  pose proof (sub2ind_lt _ _ Hi) as Ha. pose proof (sub2ind_lt _ _ Hj) as Hc.
  rewrite den_matmul by (rewrite dshape_to_tenmat; cbn [nth]; assumption).
  rewrite dshape_to_tenmat. cbn [nth]. fold s1 s2.
  unfold spec_ttt. fold s1 s2 r1 r2.
  assert (HLi : length i = length r1) by (apply inb_length in Hi; now rewrite pick_length in Hi).
  rewrite (firstn_app_len (length r1) i j HLi).
  replace (skipn (length r1) (i ++ j)) with j.
  2:{ rewrite skipn_app, skipn_all2 by lia. replace (Nat.sub (length r1) (length i)) with 0 by lia. reflexivity. }
  unfold allsubs. rewrite sum_over_map. apply sum_n_ext. intros l Hl.
  rewrite den_to_tenmat by (fold s1; assumption).
  rewrite den_to_tenmat by (fold s2; rewrite <- ?Hm; assumption).
  fold s1 s2. rewrite !ind2sub_sub2ind by assumption. now rewrite Hm.
Qed.

Theorem impl_ttt_dense_correct (X Y : dense V) sd od :
  let s1 := dshape X in let s2 := dshape Y in
  pick 0 sd s1 = pick 0 od s2 ->
  let Z := impl_ttt_dense v0 vadd vmul X Y sd od in
  dshape Z = ttt_shape s1 s2 sd od /\ wf_dense Z /\
  forall ij, inb (ttt_shape s1 s2 sd od) ij = true ->
    den Z ij = spec_ttt v0 vadd vmul (den X) s1 (den Y) s2 sd od ij.
Proof.
  intros s1 s2 Hm. unfold impl_ttt_dense, ttt_shape. fold s1 s2.
  set (r1 := compl (length s1) sd). set (r2 := compl (length s2) od).
  set (rs1 := pick 0 r1 s1). set (rs2 := pick 0 r2 s2).
  set (C := matmul v0 vadd vmul (impl_to_tenmat v0 X r1 sd) (impl_to_tenmat v0 Y od r2)).
  assert (HdC : dshape C = [size rs1; size rs2]).
  { unfold C. rewrite dshape_matmul, !dshape_to_tenmat. reflexivity. }
  assert (Hsplit : forall ij, inb (rs1 ++ rs2) ij = true ->
            exists i j, ij = i ++ j /\ inb rs1 i = true /\ inb rs2 j = true).
  { intros ij Hij. exists (firstn (length rs1) ij), (skipn (length rs1) ij).
    pose proof (inb_length _ _ Hij) as HL. rewrite app_length in HL.
    rewrite <- (firstn_skipn (length rs1) ij) in Hij.
    rewrite inb_app in Hij by (rewrite firstn_length; lia).
    apply andb_true_iff in Hij as [H1 H2]. now rewrite firstn_skipn. }
  destruct (rs1 ++ rs2) as [|d0 ts] eqn:Ets.
  - cbn zeta. split; [reflexivity|]. split; [reflexivity|].
    intros ij Hij. destruct ij; [|discriminate].
    apply app_eq_nil in Ets as [E1 E2].
    pose proof (ttt_core X Y sd od [] [] Hm) as K. cbn zeta in K. fold s1 s2 r1 r2 rs1 rs2 C in K.
    rewrite E1, E2 in K. specialize (K eq_refl eq_refl). cbn [sub2ind app] in K.
    unfold den_dense at 1. cbn [dshape ddata inb sub2ind nth]. exact K.
  - rewrite <- Ets in *. clear Ets d0 ts. cbn zeta.
    assert (Hord : seq 0 (length r1) ++ seq (length r1) (length r2) = seq 0 (length (rs1 ++ rs2))).
    { rewrite app_length. unfold rs1, rs2. rewrite !pick_length. symmetry. apply seq_app. }
    assert (Hp : is_perm (seq 0 (length r1) ++ seq (length r1) (length r2)) (length (rs1 ++ rs2))).
    { rewrite Hord. apply c02_seq_perm. }
    split; [now apply dshape_to_tensor|]. split; [now apply wf_to_tensor|].
    intros ij Hij. rewrite den_to_tensor by assumption.
    rewrite Hord. rewrite pick_seq.
    pose proof (inb_length _ _ Hij) as HLij. rewrite <- HLij. rewrite pick_seq.
    destruct (Hsplit ij Hij) as (i & j & -> & Hi & Hj).
    pose proof (ttt_core X Y sd od i j Hm Hi Hj) as K. cbn zeta in K. fold s1 s2 r1 r2 rs1 rs2 C in K. rewrite <- K.
    rewrite (den_2d_nth C (size rs1) (size rs2)) by (auto; now apply sub2ind_lt).
    rewrite sub2ind_app by (now apply inb_length). reflexivity.
Qed.

(* ---------------------------------------------------------------- tensor.collapse *)
Lemma nth_map_seq (F : nat -> V) n a : a < n -> nth a (map F (seq 0 n)) v0 = F a.
Proof.
  intros H. rewrite (nth_indep _ v0 (F 0)) by (now rewrite map_length, seq_length).
  rewrite (map_nth F). now rewrite seq_nth.
Qed.

Lemma unpick_seq (l : idx) : unpick (seq 0 (length l)) l = l.
Proof. unfold unpick. apply c02_pick_invperm_seq. Qed.

Lemma data_as_map (X : dense V) : wf_dense X -> map (den X) (allsubs (dshape X)) = ddata X.
Proof.
  intros W. unfold allsubs. rewrite map_map.
  change (map (fun k => den X (ind2sub (dshape X) k)) (seq 0 (size (dshape X)))) with (ddata (tabulate (dshape X) (den X))).
  now rewrite tabulate_den.
Qed.

Lemma compl_nil N : compl N [] = seq 0 N.
Proof. unfold compl. cbn [existsb negb]. induction (seq 0 N) as [|x l IH]; cbn; [reflexivity|]. now rewrite IH. Qed.

Theorem impl_collapse_dense_correct (red : list V -> V) (X : dense V) dims :
  wf_dense X -> dims <> [] ->
  (compl (length (dshape X)) dims = [] -> dims = seq 0 (length (dshape X))) ->
  let Y := impl_collapse_dense v0 red X dims in
  dshape Y = ttv_shape (dshape X) dims /\ wf_dense Y /\
  forall i', inb (ttv_shape (dshape X) dims) i' = true ->
    den Y i' = spec_collapse_red red (den X) (dshape X) dims i'.
Proof.
  intros W Hne Hall. unfold impl_collapse_dense, ttv_shape, spec_collapse_red.
  set (s := dshape X) in *. set (rem := compl (length s) dims) in *.
  destruct dims as [|d0 dims']; [congruence|]. set (dims := d0 :: dims') in *.
  destruct rem as [|m0 rem'] eqn:Erem.
  - cbn zeta. split; [reflexivity|]. split; [reflexivity|].
    intros i' Hi. destruct i'; [|discriminate].
    unfold den_dense at 1. cbn [dshape ddata inb sub2ind nth]. f_equal.
    rewrite (Hall eq_refl). cbn [app]. rewrite pick_seq. rewrite <- (data_as_map X W). fold s.
    apply map_ext_in. intros ks Hks. apply in_allsubs, inb_length in Hks. rewrite <- Hks. now rewrite unpick_seq.
  - rewrite <- Erem in *. clear Erem m0 rem'. cbn zeta.
    set (rs := pick 0 rem s). set (cs := pick 0 dims s).
    rewrite dshape_to_tenmat. cbn [nth]. fold s rs cs.
    split; [unfold np_reshapeF; apply dshape_tabulate|]. split; [apply wf_tabulate|].
    intros i' Hi. unfold np_reshapeF. rewrite den_tabulate by exact Hi. cbn [ddata].
    pose proof (sub2ind_lt _ _ Hi) as Ha.
    rewrite (nth_map_seq (fun i => red (map (fun c => den (impl_to_tenmat v0 X rem dims) [i; c]) (seq 0 (size cs))))) by exact Ha.
    f_equal. unfold allsubs. rewrite map_map. apply map_ext_in. intros c Hc. apply in_seq in Hc.
    rewrite den_to_tenmat by (fold s; fold rs; fold cs; auto; lia).
    fold s. fold rs. fold cs. now rewrite ind2sub_sub2ind.
Qed.

(* the default reducer np.sum: collapse = the sum over the collapsed modes (spec_collapse), dims = [] included (self.copy()) *)
Theorem impl_collapse_sum_correct (X : dense V) dims :
  wf_dense X ->
  (compl (length (dshape X)) dims = [] -> dims = seq 0 (length (dshape X))) ->
  let Y := impl_collapse_dense v0 (sumv v0 vadd) X dims in
  dshape Y = ttv_shape (dshape X) dims /\ wf_dense Y /\
  forall i', inb (ttv_shape (dshape X) dims) i' = true ->
    den Y i' = spec_collapse v0 vadd (den X) (dshape X) dims i'.
Proof.
  intros W Hall. destruct dims as [|d0 dims'].
  - unfold impl_collapse_dense, ttv_shape, spec_collapse. rewrite compl_nil. cbn zeta.
    rewrite pick_seq. split; [reflexivity|]. split; [exact W|].
    intros i' Hi. change (pick 0 [] (dshape X)) with (@nil nat). cbn [allsubs size fold_right seq map ind2sub].
    rewrite sum_over_cons, sum_over_nil. rewrite !app_nil_r.
    apply inb_length in Hi. rewrite <- Hi. rewrite unpick_seq. ring.
  - apply (impl_collapse_dense_correct (sumv v0 vadd) X (d0 :: dims') W); [discriminate|exact Hall].
Qed.

(* ---------------------------------------------------------------- tensor.contract *)
Theorem impl_contract_dense_correct (X : dense V) i1 i2 :
  wf_dense X -> i1 <> i2 -> i1 < length (dshape X) -> i2 < length (dshape X) ->
  nth i1 (dshape X) 0 = nth i2 (dshape X) 0 ->
  let Y := impl_contract_dense v0 vadd X i1 i2 in
  dshape Y = ttv_shape (dshape X) [i1; i2] /\ wf_dense Y /\
  forall i', inb (ttv_shape (dshape X) [i1; i2]) i' = true ->
    den Y i' = spec_contract v0 vadd (den X) (dshape X) i1 i2 i'.
Proof.
  intros W Hne H1 H2 Heq. unfold impl_contract_dense, ttv_shape, spec_contract.
  set (s := dshape X) in *. set (n := nth i1 s 0) in *.
  destruct (Nat.eqb_spec (length s) 2) as [E2|E2].
  - destruct s as [|a [|b [|? ?]]] eqn:Es; cbn [length] in E2; try lia. cbn [length] in *.
    assert (Hc : (i1 = 0 /\ i2 = 1) \/ (i1 = 1 /\ i2 = 0)) by lia.
    destruct Hc as [[-> ->]|[-> ->]]; cbn zeta.
    + split; [reflexivity|]. split; [reflexivity|]. intros i' Hi. destruct i'; [|discriminate].
      unfold den_dense at 1. cbn [dshape ddata inb sub2ind nth]. apply sum_n_ext. intros k Hk. reflexivity.
    + split; [reflexivity|]. split; [reflexivity|]. intros i' Hi. destruct i'; [|discriminate].
      unfold den_dense at 1. cbn [dshape ddata inb sub2ind nth]. apply sum_n_ext. intros k Hk. reflexivity.
  - cbn zeta. set (rem := compl (length s) [i1; i2]). set (newsize := pick 0 rem s).
    set (p := rem ++ [i1; i2]).
    assert (Hps : pick 0 p s = newsize ++ [n; n]).
    { unfold p. rewrite c02_pick_app. fold newsize. unfold pick at 1. cbn [map]. fold n. now rewrite <- Heq. }
    split; [unfold np_reshapeF; apply dshape_tabulate|]. split; [apply wf_tabulate|].
    intros i' Hi. unfold np_reshapeF at 1. rewrite den_tabulate by exact Hi. cbn [ddata].
    pose proof (sub2ind_lt _ _ Hi) as Ha.
    rewrite (nth_map_seq (fun a => Sn n (fun k => den (np_reshapeF v0 (np_transpose v0 X p) [size newsize; n; n]) [a; k; k]))) by exact Ha.
    apply sum_n_ext. intros k Hk.
    assert (Hkk : inb [n; n] [k; k] = true).
    { cbn [inb]. apply Nat.ltb_lt in Hk. now rewrite Hk. }
    rewrite den_reshapeF.
    + unfold np_transpose at 2. rewrite dshape_tabulate. fold s. rewrite Hps.
      change (sub2ind [size newsize; n; n] [sub2ind newsize i'; k; k])
        with (Nat.add (sub2ind newsize i') (Nat.mul (size newsize) (sub2ind [n; n] [k; k]))).
      rewrite ind2sub_app by (auto; now apply sub2ind_lt).
      rewrite !ind2sub_sub2ind by assumption.
      unfold np_transpose. fold s. rewrite den_tabulate; [reflexivity|].
      rewrite Hps. rewrite inb_app by (now apply inb_length). now rewrite Hi, Hkk.
    + apply wf_tabulate.
    + unfold np_transpose. rewrite dshape_tabulate. fold s. rewrite Hps, size_app. cbn. lia.
    + cbn [inb]. apply Nat.ltb_lt in Ha, Hk. now rewrite Ha, Hk.
Qed.

(* ---------------------------------------------------------------- tensor.scale *)
Theorem impl_scale_dense_correct (X F : dense V) dims :
  wf_dense X -> is_perm (dims ++ compl (length (dshape X)) dims) (length (dshape X)) ->
  dshape F = pick 0 dims (dshape X) ->
  let Y := impl_scale_dense v0 vmul X dims F in
  dshape Y = dshape X /\ wf_dense Y /\
  forall i, inb (dshape X) i = true -> den Y i = spec_scale vmul (den X) dims (den F) i.
Proof.
  intros W Hp HF. unfold impl_scale_dense, spec_scale.
  set (s := dshape X) in *. set (rem := compl (length s) dims) in *. set (p := dims ++ rem) in *.
  cbn zeta. split; [now apply dshape_to_tensor|]. split; [now apply wf_to_tensor|].
  intros i Hi. rewrite den_to_tensor by assumption. fold p.
  set (ds := pick 0 dims s). set (rs := pick 0 rem s).
  pose proof (inb_length _ _ Hi) as HLi.
  assert (Hdi : inb ds (pick 0 dims i) = true).
  { apply c02_inb_pick_sub; auto. intros k Hk. now apply (c02_perm_app_l dims rem). }
  assert (Hri : inb rs (pick 0 rem i) = true).
  { apply c02_inb_pick_sub; auto. intros k Hk. now apply (c02_perm_app_r dims rem). }
  pose proof (sub2ind_lt _ _ Hdi) as Ha. pose proof (sub2ind_lt _ _ Hri) as Hb.
  unfold p. rewrite !c02_pick_app. fold ds rs.
  rewrite sub2ind_app by (now apply inb_length).
  rewrite dshape_to_tenmat. fold s ds rs.
  rewrite <- (sub2ind_2 (size ds) (size rs)).
  assert (Hab : inb [size ds; size rs] [sub2ind ds (pick 0 dims i); sub2ind rs (pick 0 rem i)] = true).
  { cbn [inb]. apply Nat.ltb_lt in Ha, Hb. now rewrite Ha, Hb. }
  rewrite nth_tabulate by (now apply sub2ind_lt). rewrite ind2sub_sub2ind by exact Hab. cbn [nth].
  f_equal.
  - rewrite den_to_tenmat by (fold s; fold ds; fold rs; assumption).
    fold s ds rs. rewrite !ind2sub_sub2ind by assumption.
    rewrite <- c02_pick_app. fold p. unfold unpick.
    now rewrite (pick_invperm_pick 0 p (length s)).
  - rewrite den_to_tenmat.
    + rewrite pick_seq. change (pick 0 [] (dshape F)) with (@nil nat). cbn [ind2sub]. rewrite !app_nil_r.
      rewrite HF. fold ds. rewrite ind2sub_sub2ind by exact Hdi.
      replace (length ds) with (length (pick 0 dims i)) by (unfold ds; now rewrite !pick_length).
      now rewrite unpick_seq.
    + rewrite pick_seq, HF. exact Ha.
    + cbn. lia.
Qed.

(* ---------------------------------------------------------------- tensor.mask *)
Theorem impl_mask_dense_correct (X : dense V) (wsubs : list idx) :
  Forall (fun i => inb (dshape X) i = true) wsubs ->
  impl_mask_dense v0 X wsubs = spec_mask (den X) wsubs.
Proof.
  intros H. unfold impl_mask_dense, spec_mask. apply map_ext_in. intros i Hi.
  rewrite Forall_forall in H. unfold den_dense. now rewrite (H i Hi).
Qed.

End P.
