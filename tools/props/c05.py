"""C05 — operations never modify their operands and never alias them (DESIGN §C05).  LEVEL = other.

Coq part (Props/C05.v over Model/C05Store.v): frame / footprint / copy theorems over a store model, for all inputs.
Measured part (this file): for EVERY public method of the seven classes, every algorithm entry point, every
pyttb_utils helper and every constructor, per parameter class, the hypothesis of the frame theorem (disjointness of
the result's and the operands' buffers) and the operands-unchanged bit are MEASURED on pyttb and the row is
evaluated by the Coq table checker `row_check`.  A public name without a table entry fails closed.
"""
import copy as _copy
import math
import os
import tempfile

from vcheck import Case
from props import c05_util as U
from props import c05_skel as SK

try:
    import numpy as np
except ImportError:          # tools that only read the module constants
    np = None

PROP = "C05"
LEVEL = "other"
GEN_UNITS = []
COQ_TARGETS = ["Props/C05.vo", "Model/Harness.vo"]
THEOREM_FILES = ["Props/C05.v"]
COQ_IMPORTS = ("From Coq Require Import List Arith Bool ZArith.\n"
               "From PV Require Import Model.C05Store Model.C05View Model.C05View2 Model.C05Frame Model.C05ViewZ.\nImport ListNotations.\n")
RULE = ("one case per (public operation, parameter class, shape[, memory layout]): operations enumerated from dir() of tensor, sptensor, "
        "ktensor, ttensor, tenmat, sptenmat, sumtensor, pyttb_utils, the pyttb top level and (wave 4) the optimizer classes of pyttb.gcp.optimizers "
        "(unlisted name = failing case) plus an explicit list of cp_apr / gcp helper functions; "
        "shapes (2,3,4), (3,1,2), (2,2,2) (+ (3,4), (2,3,2,2), (4,1,3) and seeded random parameters in thorough); operands built fresh "
        "from python lists; every pure / in-place / no-copy row is repeated with all caller-chosen arrays (bare ndarrays, ktensor/ttensor "
        "factors and weights, sptensor/sptenmat subs and vals) C-contiguous, F-contiguous, as a non-contiguous strided view, as an F-contiguous "
        "window that does not own its data (also tensor.data / tenmat.data), as a negative-stride view, and READ-ONLY (every array reachable from a "
        "non-receiver operand has write=False: a write into an operand raises); "
        "parameter classes include both sides of data-dependent switches (already-symmetric receiver, all-ones mask, identity "
        "permutation, singleton modes, nothing to squash, identical stored patterns, exact cancellation), multi-step histories "
        "(receiver produced by normalize/arrange/redistribute, by S-S / S+S / S*S / a region read / a copy=False construction; result "
        "written through pyttb's own __setitem__; model of one run reused as the next run's init; optimizer object reused), the second application "
        "of every in-place method to the same receiver, the second run of every algorithm on the very same data / init / optimizer objects (the "
        "first run's result is an operand of the second), maxiters=0 / max_iters=0 / maxiter=0; (wave 5) the EMPTY SELECTION for every operation that takes a list of "
        "modes / multiplicands / subscripts / components where pyttb admits it (ttv over no mode in both spellings for all five classes, collapse(dims=[]), "
        "matricisations with no row or no column mode, ttensor.ttm / reconstruct over no mode, ttt over no pair, update with no mode, no subscript row) and its "
        "counterpart 'everything selected', requests pyttb must refuse (permute / scale / tensor.ttm over no mode, ill-formed update) as rows that demand every operand "
        "untouched, receivers without stored entries against every operand kind, the functions of module pyttb.cp_apr enumerated (row-subproblem helpers "
        "called the way the solvers call them); rows of an open finding are split into the part "
        "showing exactly the finding (operand buffer set, aspect) and sibling rows for everything else; "
        "non-trivial = the table entry returns or updates arrays (kind pure / inplace / nocopy, not scalar / property / attribute) and "
        "its operands hold at least one non-empty array; distinct = distinct (op, parameter class, shape, seed, layout); one "
        "'model-tie' case per function transliterated in Model/C05View.v / C05View2.v (sharing skeleton of the current source vs. the recorded one)")
CORRESPONDENCE_ONLY = ["disjointness of result and operand buffers per (operation, parameter class, layout): measured with "
                       "np.shares_memory + cross-writes + read-only operands, not proved for all inputs, EXCEPT for the 26 return paths transliterated in "
                       "Model/C05View.v and Model/C05View2.v (tensor.__init__/copy/permute/reshape/squeeze/__getitem__ region/to_tenmat, tenmat.__init__/copy/"
                       "__getitem__/to_tensor/ctranspose/double, sptensor.__init__/copy/find, sptenmat.__init__/copy, ktensor.__init__/copy/extract/tolist, "
                       "ttensor.__init__/copy, khatrirao single matrix, to_memory_order) whose may-alias verdict is a theorem over the numpy view model; there "
                       "the model itself is tied to pyttb by hand transliteration + sharing-skeleton check + agreement with the measured verdict on every generated row",
                       "negative-stride arguments: the verdicts of tensor / tenmat / ktensor / sptensor __init__ and khatrirao(single) are theorems over the signed view "
                       "model Model/C05ViewZ.v (compared with the measurement on every negstride row); every other operation on negative-stride operands is measured only",
                       "gcp helper functions: an explicit list (fg.evaluate, fg_est.estimate, samplers.uniform/stratified/semistrat/nonzeros/zeros), not an enumeration "
                       "(module pyttb.cp_apr IS enumerated since wave 5: namespace cpapr, an unlisted function fails the check)"]
ASSUMPTIONS = [
    "np.shares_memory is exact on the small arrays used; the generic object walker (slots/__dict__/list/tuple/dict/scipy "
    "sparse) reaches every buffer of an operand or result (cross-checked by the in-place sentinel writes in both directions and by the read-only variant)",
    "aliasing depends on the parameter class and memory layout, not on values other than the enumerated data-dependent switches: the "
    "enumerated classes (identity vs other permutation, same vs new shape, single vs several modes, copy flag, init given, negative "
    "indices, C/F/strided/window/negative-stride/read-only operands, already-symmetric / all-ones / identical-pattern data, first vs second use ...) are representative",
    "optimizer/solver objects passed to gcp_opt or used directly are tracked as operands (every attribute reachable "
    "from the object is snapshotted); that the stochastic solvers keep their run state in exactly the attributes named by finding C05-N10 is known, any other change is reported",
    "numpy view model: Model/C05View.v / C05View2.v have non-negative strides, Model/C05ViewZ.v (wave 5) has signed offsets / strides for the constructors and is "
    "proved to coincide with C05View on non-negative strides; reshape(order='F') of an array that is neither F-contiguous nor of the "
    "requested shape is modelled as a copy (numpy may still find a view); zero-size arrays are not special-cased; the model's verdict "
    "is compared with the measured one on every generated row of a transliterated operation",
]
EXPLANATION = ("Level other: C05_frame/C05_copy/C05_inplace_footprint are proved for all stores and write histories, C05_view_frame / C05_view_write_visible "
               "for writes through views at cell granularity; the numpy view model "
               "(arrays = windows onto buffers) proves which numpy steps allocate and which alias, and from that the may-alias verdict "
               "of 26 transliterated pyttb return paths for all arrays/parameters (C05_*_verdict), and (C05_z_*) that a reversed view is a view showing exactly "
               "the base's cells, is never contiguous, and makes the F-order-insisting no-copy constructors allocate. For every other operation the "
               "hypothesis (result buffers disjoint from operand buffers) is measured here per operation x parameter class x layout "
               "and each measured row is evaluated by the Coq checker row_check, proved sound and complete (operands unchanged, disjoint, no-copy constructions "
               "share only the same-position buffer, and the cross-write observations agree with what the frame theorem predicts).")

SHAPES = [(2, 3, 4), (3, 1, 2), (2, 2, 2)]
SHAPES_THOROUGH = [(3, 4), (2, 3, 2, 2), (4, 1, 3)]
CUBE = [(2, 2, 2)]
LAYOUT_SHAPES = [(2, 3, 4)]      # quick tier: layout variants on this shape / an entry's first own shape (all shapes in thorough)
NOSINGLE = [(2, 3, 4), (2, 2, 2)]
CLASSES = ["tensor", "sptensor", "ktensor", "ttensor", "tenmat", "sptenmat", "sumtensor"]
DUNDERS = ("__add__ __sub__ __mul__ __truediv__ __pow__ __eq__ __ne__ __lt__ __le__ __gt__ __ge__ __neg__ __pos__ "
           "__radd__ __rsub__ __rmul__ __rtruediv__ __getitem__ __setitem__ __deepcopy__ __matmul__ __rmatmul__ "
           "__iadd__ __isub__ __imul__ __itruediv__ __ipow__ __floordiv__ __mod__ __abs__ __invert__ __and__ __or__ "
           "__xor__ __copy__ __array__ __len__ __iter__ __contains__ __call__").split()


class AD(dict):
    """operands of one call: ops.X.  Hidden entries (wave 4: rows that track only some operands) stay reachable as
    attributes for the call but are not operands for the measurement (not snapshotted, not poked, not compared)."""

    def __getattr__(self, k):
        if k in self:
            return self[k]
        hid = self.__dict__.get("_hid", {})
        if k in hid:
            return hid[k]
        raise AttributeError(k)

    def hide(self, names):
        hid = self.__dict__.setdefault("_hid", {})
        for n in list(names):
            if n in self:
                hid[n] = self.pop(n)
        return self


class B:
    """deterministic operand builder for one shape; every call returns fresh objects built from python lists"""

    def __init__(self, shape, seed=0):
        import pyttb as ttb
        self.ttb = ttb
        self.shape = tuple(shape)
        self.N = len(self.shape)
        self.n = math.prod(self.shape)
        self.seed = seed

    def arr(self, off=0):
        vals = [float(((k * 7 + off * 3 + self.seed) % 11) + 1) for k in range(self.n)]
        return np.array(vals).reshape(self.shape, order="F")

    def T(self, off=0):
        return self.ttb.tensor(self.arr(off), copy=True)

    def W(self):
        vals = [float((k + self.seed) % 2) for k in range(self.n)]
        return self.ttb.tensor(np.array(vals).reshape(self.shape, order="F"), copy=True)

    def subs_list(self, off=0):
        allsubs = [list(np.unravel_index(k, self.shape, order="F")) for k in range(self.n)]
        sel = [s for k, s in enumerate(allsubs) if (k + off + self.seed) % 2 == 0]
        return [[int(x) for x in s] for s in sel] or [[0] * self.N]

    def subs(self, off=0):
        return np.array(self.subs_list(off), dtype=int)

    def vals(self, off=0):
        m = len(self.subs_list(off))
        return np.array([[float(k + 1 + off)] for k in range(m)])

    def S(self, off=0):
        return self.ttb.sptensor(self.subs(off), self.vals(off), self.shape, copy=True)

    def WS(self):
        m = len(self.subs_list(1))
        return self.ttb.sptensor(self.subs(1), np.ones((m, 1)), self.shape, copy=True)

    def fm(self, R=2, off=0):
        return [np.array([[float(((i + 2 * r + k + off + self.seed) % 5) + 1) for r in range(R)] for i in range(s)])
                for k, s in enumerate(self.shape)]

    def K(self, R=2, off=0):
        return self.ttb.ktensor(self.fm(R, off), np.array([2.0 + off, 3.0][:R] + [1.0] * max(0, R - 2)), copy=True)

    def ranks(self):
        return [min(s, 2) for s in self.shape]

    def TT(self, off=0):
        rk = self.ranks()
        nc = math.prod(rk)
        core = self.ttb.tensor(np.array([float((k + off) % 5 + 1) for k in range(nc)]).reshape(rk, order="F"), copy=True)
        fms = [np.array([[float(((i + 2 * r + k + off) % 5) + 1) for r in range(rk[k])] for i in range(s)])
               for k, s in enumerate(self.shape)]
        return self.ttb.ttensor(core, fms, copy=True)

    def TM(self, off=0):
        rows = self.shape[0]
        return self.ttb.tenmat(self.arr(off).reshape((rows, self.n // rows), order="F"), np.array([0]),
                               np.arange(1, self.N), self.shape, copy=True)

    def STM(self, off=0):
        return self.S(off).to_sptenmat(np.array([0]))

    def SUM(self):
        return self.ttb.sumtensor([self.T(), self.K()], copy=True)

    def vec(self, n, off=0):
        return np.array([float(i + 1 + off) for i in range(self.shape[n])])

    def vecs(self, dims=None):
        return [self.vec(n) for n in (range(self.N) if dims is None else dims)]

    def mat(self, n, J=2):
        return np.array([[float((i + 2 * j) % 5 + 1) for i in range(self.shape[n])] for j in range(J)])


# ------------------------------------------------------------------------------------------------------------
# the table: (class or namespace, name) -> list of entries
#   kind: pure | inplace | nocopy | scalar | property | attr | skip
# ------------------------------------------------------------------------------------------------------------
TABLE = {}


def reg(ns, name, pclass, build, call, kind="pure", shapes=None, recv=None, thorough_shapes=True, allow=None, layouts=True,
        only=None, but=None, aspects=None, chg=None):
    """allow (nocopy rows only): predicate (result path, operand path) -> bool naming the sharing the documentation of the
    no-copy construction permits; any other shared pair fails the row.  layouts=False: no memory-layout variants.
    wave 4 (rows split along a known finding, so that its trigger is exactly (operation, parameter class, buffer set)):
    only / but = names of the operands that are (not) tracked by this row; aspects = subset of ("changed", "shared") that this
    row judges; chg = predicate on the path of a changed operand buffer: only those are judged by this row."""
    TABLE.setdefault((ns, name), []).append(
        dict(pclass=pclass, build=build, call=call, kind=kind, shapes=shapes, recv=recv if kind == "inplace" else None,
             tshapes=thorough_shapes and shapes is None, allow=allow, layouts=layouts, only=only, but=but, aspects=aspects, chg=chg))


def skip(ns, name, why):
    TABLE.setdefault((ns, name), []).append(dict(pclass="skip", kind="skip", why=why))


def X(mk, *a, **kw):
    """build lambda with a single receiver X = b.<mk>(...)"""
    return lambda b: dict(X=getattr(b, mk)(*a, **kw))


# ---- tensor ---------------------------------------------------------------------------------------------
def _tensor_table():
    c = "tensor"
    XT = X("T")
    both = lambda b: dict(X=b.T(), Y=b.T(1))
    reg(c, "__init__", "copy=True", lambda b: dict(d=b.arr()), lambda o: o.d is not None and __import__("pyttb").tensor(o.d, copy=True))
    reg(c, "__init__", "copy=True,shape", lambda b: dict(d=b.arr().reshape(-1, order="F")), lambda o, b: b.ttb.tensor(o.d, b.shape, copy=True))
    reg(c, "__init__", "copy=False", lambda b: dict(d=b.arr()), lambda o, b: b.ttb.tensor(o.d, copy=False), kind="nocopy")
    reg(c, "__init__", "copy=False,C-order", lambda b: dict(d=np.ascontiguousarray(b.arr())), lambda o, b: b.ttb.tensor(o.d, copy=False), kind="nocopy")
    reg(c, "collapse", "all", XT, lambda o: o.X.collapse(), kind="scalar")
    reg(c, "collapse", "single", lambda b: dict(X=b.T(), dims=np.array([0])), lambda o: o.X.collapse(o.dims))
    reg(c, "collapse", "multiple", lambda b: dict(X=b.T(), dims=np.array([0, 1])), lambda o: o.X.collapse(o.dims, np.max))
    reg(c, "contract", "default", XT, lambda o: o.X.contract(0, 1), shapes=CUBE)
    reg(c, "contract", "to-scalar", XT, lambda o: o.X.contract(0, 1), shapes=[(2, 2)], kind="scalar")
    reg(c, "copy", "default", XT, lambda o: o.X.copy())
    reg(c, "__deepcopy__", "default", XT, lambda o: _copy.deepcopy(o.X))
    reg(c, "data", "attr", XT, lambda o: o.X.data, kind="attr")
    reg(c, "shape", "attr", XT, lambda o: o.X.shape, kind="attr")
    reg(c, "double", "default", XT, lambda o: o.X.double())
    reg(c, "exp", "default", XT, lambda o: o.X.exp())
    reg(c, "find", "default", XT, lambda o: o.X.find())
    reg(c, "from_function", "default", lambda b: dict(), lambda o, b: b.ttb.tensor.from_function(lambda s: np.ones(s, order="F"), b.shape))
    reg(c, "from_function", "handle-returns-held-array", lambda b: dict(d=b.arr()), lambda o, b: b.ttb.tensor.from_function(lambda s: o.d, b.shape), kind="nocopy")   # the handle hands its array over
    reg(c, "full", "default", XT, lambda o: o.X.full())
    reg(c, "innerprod", "tensor", both, lambda o: o.X.innerprod(o.Y), kind="scalar")
    reg(c, "innerprod", "sptensor", lambda b: dict(X=b.T(), Y=b.S()), lambda o: o.X.innerprod(o.Y), kind="scalar")
    reg(c, "innerprod", "ktensor", lambda b: dict(X=b.T(), Y=b.K()), lambda o: o.X.innerprod(o.Y), kind="scalar")
    reg(c, "innerprod", "ttensor", lambda b: dict(X=b.T(), Y=b.TT()), lambda o: o.X.innerprod(o.Y), kind="scalar")
    reg(c, "isequal", "tensor", both, lambda o: o.X.isequal(o.Y), kind="scalar")
    reg(c, "isequal", "sptensor", lambda b: dict(X=b.T(), Y=b.S()), lambda o: o.X.isequal(o.Y), kind="scalar")
    reg(c, "issymmetric", "default", XT, lambda o: o.X.issymmetric(), shapes=CUBE, kind="scalar")
    reg(c, "issymmetric", "grps", lambda b: dict(X=b.T(), g=np.array([0, 1])), lambda o: o.X.issymmetric(o.g), shapes=CUBE, kind="scalar")
    reg(c, "issymmetric", "details", XT, lambda o: o.X.issymmetric(return_details=True), shapes=CUBE)
    for nm in ("logical_and", "logical_or", "logical_xor"):
        reg(c, nm, "tensor", both, lambda o, nm=nm: getattr(o.X, nm)(o.Y))
        reg(c, nm, "scalar", XT, lambda o, nm=nm: getattr(o.X, nm)(1.0))
    reg(c, "logical_not", "default", XT, lambda o: o.X.logical_not())
    reg(c, "mask", "default", lambda b: dict(X=b.T(), W=b.W()), lambda o: o.X.mask(o.W))
    reg(c, "mttkrp", "list,first", lambda b: dict(X=b.T(), U=b.fm()), lambda o: o.X.mttkrp(o.U, 0))
    reg(c, "mttkrp", "list,last", lambda b: dict(X=b.T(), U=b.fm()), lambda o, b: o.X.mttkrp(o.U, b.N - 1))
    reg(c, "mttkrp", "list,middle", lambda b: dict(X=b.T(), U=b.fm()), lambda o, b: o.X.mttkrp(o.U, 1))
    reg(c, "mttkrp", "ktensor", lambda b: dict(X=b.T(), U=b.K()), lambda o: o.X.mttkrp(o.U, 0))
    reg(c, "mttkrps", "list", lambda b: dict(X=b.T(), U=b.fm()), lambda o: o.X.mttkrps(o.U))
    reg(c, "mttkrps", "ktensor", lambda b: dict(X=b.T(), U=b.K()), lambda o: o.X.mttkrps(o.U))
    for nm in ("ndims", "nnz", "order"):
        reg(c, nm, "property", XT, lambda o, nm=nm: getattr(o.X, nm), kind="property")
    reg(c, "norm", "default", XT, lambda o: o.X.norm(), kind="scalar")
    reg(c, "nvecs", "r=1", XT, lambda o: o.X.nvecs(0, 1))
    reg(c, "nvecs", "r=2,noflip", XT, lambda o: o.X.nvecs(0, 2, flipsign=False), shapes=NOSINGLE)
    reg(c, "permute", "identity", lambda b: dict(X=b.T(), order=np.arange(b.N)), lambda o: o.X.permute(o.order))
    reg(c, "permute", "reverse", lambda b: dict(X=b.T(), order=np.arange(b.N)[::-1].copy()), lambda o: o.X.permute(o.order))
    reg(c, "permute", "cyclic", lambda b: dict(X=b.T(), order=np.roll(np.arange(b.N), 1)), lambda o: o.X.permute(o.order))
    reg(c, "reshape", "same-shape", XT, lambda o, b: o.X.reshape(b.shape))
    reg(c, "reshape", "to-vector", XT, lambda o, b: o.X.reshape((b.n,)))
    reg(c, "reshape", "to-matrix", XT, lambda o, b: o.X.reshape((b.shape[0], b.n // b.shape[0])))
    reg(c, "scale", "vector,single", lambda b: dict(X=b.T(), f=b.vec(b.N - 1)), lambda o, b: o.X.scale(o.f, b.N - 1))
    reg(c, "scale", "tensor,multiple", lambda b: dict(X=b.T(), f=b.ttb.tensor(b.arr()[:, :, 0].copy() if b.N == 3 else b.arr()[:, :, 0, 0].copy()), dims=np.array([0, 1])),
        lambda o: o.X.scale(o.f, o.dims), thorough_shapes=False, shapes=SHAPES + [(2, 3, 2, 2)])
    reg(c, "squeeze", "singleton", XT, lambda o: o.X.squeeze(), shapes=[(3, 1, 2), (1, 3, 1)])
    reg(c, "squeeze", "no-singleton", XT, lambda o: o.X.squeeze(), shapes=NOSINGLE)
    reg(c, "squeeze", "all-singleton", XT, lambda o: o.X.squeeze(), shapes=[(1, 1, 1)], kind="scalar")
    reg(c, "symmetrize", "default", XT, lambda o: o.X.symmetrize(), shapes=CUBE)
    reg(c, "symmetrize", "grps", lambda b: dict(X=b.T(), g=np.array([0, 2])), lambda o: o.X.symmetrize(o.g), shapes=CUBE)
    reg(c, "tenfun", "unary", XT, lambda o: o.X.tenfun(lambda x: x + 1))
    reg(c, "tenfun", "unary-identity-handle", XT, lambda o: o.X.tenfun(lambda x: x), kind="nocopy")   # the user's handle returns its input
    reg(c, "tenfun", "binary,tensor", both, lambda o: o.X.tenfun(lambda x, y: x + y, o.Y))
    reg(c, "tenfun", "binary,ndarray", lambda b: dict(X=b.T(), Y=b.arr(1)), lambda o: o.X.tenfun(lambda x, y: x + y, o.Y))
    reg(c, "tenfun", "binary,scalar", XT, lambda o: o.X.tenfun(lambda x, y: x + y, 1))
    reg(c, "tenfun", "nary", lambda b: dict(X=b.T(), Y=b.T(1), Z=b.T(2)), lambda o: o.X.tenfun(lambda x: np.max(x, axis=0), o.Y, o.Z))
    reg(c, "tenfun_binary", "tensor", both, lambda o: o.X.tenfun_binary(lambda x, y: x + y, o.Y))
    reg(c, "tenfun_binary", "scalar", XT, lambda o: o.X.tenfun_binary(lambda x, y: x + y, 1))
    reg(c, "tenfun_binary", "scalar,first=False", XT, lambda o: o.X.tenfun_binary(lambda x, y: x - y, 1, first=False))
    reg(c, "tenfun_binary", "first-arg-handle", both, lambda o: o.X.tenfun_binary(lambda x, y: x, o.Y), kind="nocopy")
    reg(c, "tenfun_unary", "single", XT, lambda o: o.X.tenfun_unary(lambda x: x * 2))
    reg(c, "tenfun_unary", "identity-handle", XT, lambda o: o.X.tenfun_unary(lambda x: x), kind="nocopy")
    reg(c, "tenfun_unary", "several", both, lambda o: o.X.tenfun_unary(lambda x: np.max(x, axis=0), o.Y))
    reg(c, "to_sptensor", "default", XT, lambda o: o.X.to_sptensor())
    reg(c, "to_tenmat", "rdims", lambda b: dict(X=b.T(), r=np.array([0])), lambda o: o.X.to_tenmat(o.r))
    reg(c, "to_tenmat", "rdims,last", lambda b: dict(X=b.T(), r=np.array([b.N - 1])), lambda o: o.X.to_tenmat(o.r))
    reg(c, "to_tenmat", "rdims+cdims", lambda b: dict(X=b.T(), r=np.array([1]), cd=np.array([0] + list(range(2, b.N)))), lambda o: o.X.to_tenmat(o.r, o.cd))
    reg(c, "to_tenmat", "all-rows(identity layout)", lambda b: dict(X=b.T(), r=np.arange(b.N)), lambda o: o.X.to_tenmat(o.r))
    reg(c, "to_tenmat", "cyclic-fc", lambda b: dict(X=b.T(), r=np.array([1])), lambda o: o.X.to_tenmat(o.r, cdims_cyclic="fc"))
    reg(c, "to_tenmat", "cyclic-bc", lambda b: dict(X=b.T(), r=np.array([1])), lambda o: o.X.to_tenmat(o.r, cdims_cyclic="bc"))
    reg(c, "to_tenmat", "copy=False", lambda b: dict(X=b.T(), r=np.array([0])), lambda o: o.X.to_tenmat(o.r, copy=False), kind="nocopy")
    reg(c, "ttm", "single", lambda b: dict(X=b.T(), M=b.mat(0)), lambda o: o.X.ttm(o.M, 0))
    reg(c, "ttm", "single,transpose", lambda b: dict(X=b.T(), M=b.mat(0).T.copy()), lambda o: o.X.ttm(o.M, 0, transpose=True))
    reg(c, "ttm", "all", lambda b: dict(X=b.T(), M=[b.mat(n) for n in range(b.N)]), lambda o: o.X.ttm(o.M))
    reg(c, "ttm", "dims-array", lambda b: dict(X=b.T(), M=[b.mat(0), b.mat(b.N - 1)], dims=np.array([0, b.N - 1])), lambda o: o.X.ttm(o.M, o.dims))
    reg(c, "ttm", "exclude", lambda b: dict(X=b.T(), M=[b.mat(n) for n in range(b.N)], ex=np.array([1])), lambda o: o.X.ttm(o.M, exclude_dims=o.ex))
    reg(c, "ttm", "identity-matrix", lambda b: dict(X=b.T(), M=np.eye(b.shape[0])), lambda o: o.X.ttm(o.M, 0))
    reg(c, "ttsv", "all", lambda b: dict(X=b.T(), v=b.vec(0)), lambda o: o.X.ttsv(o.v), shapes=CUBE, kind="scalar")
    reg(c, "ttsv", "skip0", lambda b: dict(X=b.T(), v=b.vec(0)), lambda o: o.X.ttsv(o.v, 0), shapes=CUBE)
    reg(c, "ttsv", "skip1", lambda b: dict(X=b.T(), v=b.vec(0)), lambda o: o.X.ttsv(o.v, 1), shapes=CUBE)
    reg(c, "ttsv", "skip1,version1", lambda b: dict(X=b.T(), v=b.vec(0)), lambda o: o.X.ttsv(o.v, 1, version=1), shapes=CUBE)
    reg(c, "ttt", "outer", both, lambda o: o.X.ttt(o.Y))
    reg(c, "ttt", "contract-one", both, lambda o: o.X.ttt(o.Y, 0, 0))
    reg(c, "ttt", "contract-arrays", lambda b: dict(X=b.T(), Y=b.T(1), sd=np.array([0, 1]), od=np.array([0, 1])), lambda o: o.X.ttt(o.Y, o.sd, o.od))
    reg(c, "ttt", "contract-all", lambda b: dict(X=b.T(), Y=b.T(1), sd=np.arange(b.N), od=np.arange(b.N)), lambda o: o.X.ttt(o.Y, o.sd, o.od), kind="scalar")
    reg(c, "ttv", "single", lambda b: dict(X=b.T(), v=b.vec(0)), lambda o: o.X.ttv(o.v, 0))
    reg(c, "ttv", "all", lambda b: dict(X=b.T(), v=b.vecs()), lambda o: o.X.ttv(o.v), kind="scalar")
    reg(c, "ttv", "dims-array", lambda b: dict(X=b.T(), v=b.vecs([0, b.N - 1]), dims=np.array([0, b.N - 1])), lambda o: o.X.ttv(o.v, o.dims))
    reg(c, "ttv", "exclude", lambda b: dict(X=b.T(), v=b.vecs(), ex=np.array([0])), lambda o: o.X.ttv(o.v, exclude_dims=o.ex))
    import operator as op
    for nm, f in (("__add__", op.add), ("__sub__", op.sub), ("__mul__", op.mul), ("__truediv__", op.truediv), ("__pow__", op.pow),
                  ("__eq__", op.eq), ("__ne__", op.ne), ("__lt__", op.lt), ("__le__", op.le), ("__gt__", op.gt), ("__ge__", op.ge)):
        reg(c, nm, "tensor", both, lambda o, f=f: f(o.X, o.Y))
        reg(c, nm, "scalar", XT, lambda o, f=f: f(o.X, 2.0))
        if nm in ("__add__", "__sub__", "__mul__", "__truediv__", "__pow__"):
            reg(c, nm, "neutral-scalar", XT, lambda o, f=f, z=(0.0 if nm in ("__add__", "__sub__") else 1.0): f(o.X, z))
        if nm in ("__add__", "__sub__", "__mul__", "__eq__", "__ne__", "__gt__", "__lt__", "__ge__", "__le__"):
            reg(c, nm, "sptensor", lambda b: dict(X=b.T(), Y=b.S()), lambda o, f=f: f(o.X, o.Y))
    reg(c, "__neg__", "default", XT, lambda o: -o.X)
    reg(c, "__pos__", "default", XT, lambda o: +o.X)
    reg(c, "__radd__", "scalar", XT, lambda o: 2.0 + o.X)
    reg(c, "__radd__", "zero", XT, lambda o: 0 + o.X)
    reg(c, "__rmul__", "scalar", XT, lambda o: 2.0 * o.X)
    reg(c, "__rmul__", "one", XT, lambda o: 1 * o.X)
    reg(c, "__rtruediv__", "scalar", XT, lambda o: 2.0 / o.X)
    z = lambda b: (0,) * b.N
    reg(c, "__getitem__", "element", XT, lambda o, b: o.X[z(b)], kind="scalar")
    reg(c, "__getitem__", "full-slice", XT, lambda o, b: o.X[(slice(None),) * b.N])
    reg(c, "__getitem__", "sub-slice", XT, lambda o, b: o.X[(slice(0, 2),) + (slice(None),) * (b.N - 1)])
    reg(c, "__getitem__", "int+slices", XT, lambda o, b: o.X[(0,) + (slice(None),) * (b.N - 1)])
    reg(c, "__getitem__", "list-in-key", XT, lambda o, b: o.X[([0, 1],) + (slice(None),) * (b.N - 1)])
    reg(c, "__getitem__", "subscripts", lambda b: dict(X=b.T(), s=b.subs()), lambda o: o.X[o.s])
    reg(c, "__getitem__", "linear-array", lambda b: dict(X=b.T(), i=np.array([0, b.n - 1])), lambda o: o.X[o.i])
    reg(c, "__getitem__", "linear-all", lambda b: dict(X=b.T(), i=np.arange(b.n)), lambda o: o.X[o.i])
    reg(c, "__getitem__", "linear-slice", XT, lambda o: o.X[:])
    reg(c, "__getitem__", "linear-list", lambda b: dict(X=b.T(), i=[0, 1]), lambda o: o.X[o.i])

    def setit(o, key, val):
        o.X[key] = val
        return None
    I = dict(kind="inplace", recv="X")
    reg(c, "__setitem__", "element", XT, lambda o, b: setit(o, z(b), 99.0), **I)
    reg(c, "__setitem__", "slice,scalar", XT, lambda o, b: setit(o, (slice(None),) * b.N, 5.0), **I)
    reg(c, "__setitem__", "slice,ndarray", lambda b: dict(X=b.T(), v=b.arr(2)), lambda o, b: setit(o, (slice(None),) * b.N, o.v), **I)
    reg(c, "__setitem__", "slice,tensor", lambda b: dict(X=b.T(), v=b.T(2)), lambda o, b: setit(o, (slice(None),) * b.N, o.v), **I)
    reg(c, "__setitem__", "subslice,ndarray", lambda b: dict(X=b.T(), v=b.arr(2)[0:1]), lambda o, b: setit(o, (slice(0, 1),) + (slice(None),) * (b.N - 1), o.v), **I)
    reg(c, "__setitem__", "subscripts,vals", lambda b: dict(X=b.T(), s=b.subs(), v=b.vals()[:, 0].copy()), lambda o: setit(o, o.s, o.v), **I)
    reg(c, "__setitem__", "subscripts,scalar", lambda b: dict(X=b.T(), s=b.subs()), lambda o: setit(o, o.s, 7.0), **I)
    reg(c, "__setitem__", "linear,vals", lambda b: dict(X=b.T(), i=np.array([0, b.n - 1]), v=np.array([8.0, 9.0])), lambda o: setit(o, o.i, o.v), **I)
    reg(c, "__setitem__", "grow,subscript", lambda b: dict(X=b.T(), s=np.array([list(b.shape)])), lambda o: setit(o, o.s, 3.0), **I)
    reg(c, "__setitem__", "grow,slice", XT, lambda o, b: setit(o, tuple(b.shape[:-1]) + (b.shape[-1],), 3.0), **I)


_tensor_table()

reg("tensor", "permute", "singleton-move", lambda b: dict(X=b.T(), order=np.array([1, 0, 2])), lambda o: o.X.permute(o.order), shapes=[(3, 1, 2), (1, 3, 2)])


# ---- sptensor -------------------------------------------------------------------------------------------
def _sptensor_table():
    c = "sptensor"
    XS = X("S")
    both = lambda b: dict(X=b.S(), Y=b.S(1))
    withT = lambda b: dict(X=b.S(), Y=b.T(1))
    reg(c, "__init__", "copy=True", lambda b: dict(s=b.subs(), v=b.vals()), lambda o, b: b.ttb.sptensor(o.s, o.v, b.shape, copy=True))
    reg(c, "__init__", "copy=False", lambda b: dict(s=b.subs(), v=b.vals()), lambda o, b: b.ttb.sptensor(o.s, o.v, b.shape, copy=False), kind="nocopy")
    reg(c, "__init__", "copy=True,no-shape", lambda b: dict(s=b.subs(), v=b.vals()), lambda o, b: b.ttb.sptensor(o.s, o.v, copy=True))
    reg(c, "allsubs", "default", XS, lambda o: o.X.allsubs())
    reg(c, "collapse", "all", XS, lambda o: o.X.collapse(), kind="scalar")
    reg(c, "collapse", "single", lambda b: dict(X=b.S(), dims=np.array([0])), lambda o: o.X.collapse(o.dims))
    reg(c, "collapse", "multiple", lambda b: dict(X=b.S(), dims=np.array([0, 1])), lambda o: o.X.collapse(o.dims))
    reg(c, "collapse", "all-but-one", lambda b: dict(X=b.S(), dims=np.arange(1, b.N)), lambda o: o.X.collapse(o.dims))
    reg(c, "contract", "default", XS, lambda o: o.X.contract(0, 1), shapes=CUBE + [(2, 2, 3, 4)])
    reg(c, "contract", "to-scalar", XS, lambda o: o.X.contract(0, 1), shapes=[(2, 2)], kind="scalar")
    reg(c, "copy", "default", XS, lambda o: o.X.copy())
    reg(c, "__deepcopy__", "default", XS, lambda o: _copy.deepcopy(o.X))
    for nm in ("subs", "vals", "shape"):
        reg(c, nm, "attr", XS, lambda o, nm=nm: getattr(o.X, nm), kind="attr")
    reg(c, "double", "default", XS, lambda o: o.X.double())
    reg(c, "elemfun", "default", XS, lambda o: o.X.elemfun(lambda v: v * 2))
    reg(c, "elemfun", "identity-handle", XS, lambda o: o.X.elemfun(lambda v: v), kind="nocopy")
    reg(c, "extract", "default", lambda b: dict(X=b.S(), q=b.subs()[:2].copy()), lambda o: o.X.extract(o.q))
    reg(c, "extract", "missing", lambda b: dict(X=b.S(), q=b.subs(1)[:2].copy()), lambda o: o.X.extract(o.q))
    reg(c, "find", "default", XS, lambda o: o.X.find())
    reg(c, "from_aggregator", "with-shape", lambda b: dict(s=np.vstack([b.subs(), b.subs()[:1]]), v=np.vstack([b.vals(), b.vals()[:1]])),
        lambda o, b: b.ttb.sptensor.from_aggregator(o.s, o.v, b.shape))
    reg(c, "from_aggregator", "no-shape,no-duplicates", lambda b: dict(s=b.subs(), v=b.vals()), lambda o, b: b.ttb.sptensor.from_aggregator(o.s, o.v))
    reg(c, "from_aggregator", "function=max", lambda b: dict(s=np.vstack([b.subs(), b.subs()[:1]]), v=np.vstack([b.vals(), b.vals()[:1]])),
        lambda o, b: b.ttb.sptensor.from_aggregator(o.s, o.v, b.shape, np.max))
    reg(c, "from_function", "default", lambda b: dict(), lambda o, b: b.ttb.sptensor.from_function(np.ones, b.shape, 2))
    reg(c, "full", "default", XS, lambda o: o.X.full())
    reg(c, "to_tensor", "default", XS, lambda o: o.X.to_tensor())
    reg(c, "innerprod", "sptensor", both, lambda o: o.X.innerprod(o.Y), kind="scalar")
    reg(c, "innerprod", "tensor", withT, lambda o: o.X.innerprod(o.Y), kind="scalar")
    reg(c, "innerprod", "ktensor", lambda b: dict(X=b.S(), Y=b.K()), lambda o: o.X.innerprod(o.Y), kind="scalar")
    reg(c, "innerprod", "ttensor", lambda b: dict(X=b.S(), Y=b.TT()), lambda o: o.X.innerprod(o.Y), kind="scalar")
    reg(c, "isequal", "sptensor", both, lambda o: o.X.isequal(o.Y), kind="scalar")
    reg(c, "isequal", "tensor", withT, lambda o: o.X.isequal(o.Y), kind="scalar")
    for nm in ("logical_and", "logical_or", "logical_xor"):
        reg(c, nm, "sptensor", both, lambda o, nm=nm: getattr(o.X, nm)(o.Y))
        reg(c, nm, "tensor", withT, lambda o, nm=nm: getattr(o.X, nm)(o.Y))
        reg(c, nm, "scalar", XS, lambda o, nm=nm: getattr(o.X, nm)(1.0))
        reg(c, nm, "zero", XS, lambda o, nm=nm: getattr(o.X, nm)(0))
    reg(c, "logical_not", "default", XS, lambda o: o.X.logical_not())
    reg(c, "mask", "default", lambda b: dict(X=b.S(), W=b.WS()), lambda o: o.X.mask(o.W))
    reg(c, "mttkrp", "list,first", lambda b: dict(X=b.S(), U=b.fm()), lambda o: o.X.mttkrp(o.U, 0))
    reg(c, "mttkrp", "list,last", lambda b: dict(X=b.S(), U=b.fm()), lambda o, b: o.X.mttkrp(o.U, b.N - 1))
    reg(c, "mttkrp", "ktensor", lambda b: dict(X=b.S(), U=b.K()), lambda o: o.X.mttkrp(o.U, 1))
    for nm in ("ndims", "nnz", "order"):
        reg(c, nm, "property", XS, lambda o, nm=nm: getattr(o.X, nm), kind="property")
    reg(c, "norm", "default", XS, lambda o: o.X.norm(), kind="scalar")
    reg(c, "nvecs", "r=1", XS, lambda o: o.X.nvecs(0, 1), shapes=NOSINGLE)
    reg(c, "nvecs", "r=all", XS, lambda o, b: o.X.nvecs(0, b.shape[0]), shapes=NOSINGLE)
    reg(c, "ones", "default", XS, lambda o: o.X.ones())
    reg(c, "permute", "identity", lambda b: dict(X=b.S(), order=np.arange(b.N)), lambda o: o.X.permute(o.order))
    reg(c, "permute", "reverse", lambda b: dict(X=b.S(), order=np.arange(b.N)[::-1].copy()), lambda o: o.X.permute(o.order))
    reg(c, "reshape", "same-shape", XS, lambda o, b: o.X.reshape(b.shape))
    reg(c, "reshape", "to-vector", XS, lambda o, b: o.X.reshape((b.n,)))
    reg(c, "reshape", "old-modes", lambda b: dict(X=b.S(), om=np.array([0, 1])), lambda o, b: o.X.reshape((b.shape[0] * b.shape[1],), o.om))
    reg(c, "scale", "vector", lambda b: dict(X=b.S(), f=b.vec(b.N - 1), d=np.array([b.N - 1])), lambda o: o.X.scale(o.f, o.d))
    reg(c, "scale", "tensor", lambda b: dict(X=b.S(), f=b.ttb.tensor(b.vec(b.N - 1)), d=np.array([b.N - 1])), lambda o: o.X.scale(o.f, o.d))
    reg(c, "scale", "sptensor", lambda b: dict(X=b.S(), f=b.ttb.sptensor(np.array([[0], [1]]), np.array([[2.0], [3.0]]), (b.shape[-1],)), d=np.array([b.N - 1])), lambda o: o.X.scale(o.f, o.d))
    reg(c, "spmatrix", "default", XS, lambda o: o.X.spmatrix(), shapes=[(3, 4), (2, 2)])
    reg(c, "squash", "default", XS, lambda o: o.X.squash())
    reg(c, "squash", "inverse", XS, lambda o: o.X.squash(True))
    reg(c, "squeeze", "singleton", XS, lambda o: o.X.squeeze(), shapes=[(3, 1, 2), (1, 3, 1)])
    reg(c, "squeeze", "no-singleton", XS, lambda o: o.X.squeeze(), shapes=NOSINGLE)
    reg(c, "subdims", "default", lambda b: dict(X=b.S(), r0=np.array([0, 1])), lambda o, b: o.X.subdims([o.r0] + [slice(None)] * (b.N - 1)))
    reg(c, "subdims", "ints", XS, lambda o, b: o.X.subdims([0] * b.N))
    reg(c, "to_sptenmat", "rdims", lambda b: dict(X=b.S(), r=np.array([0])), lambda o: o.X.to_sptenmat(o.r))
    reg(c, "to_sptenmat", "rdims+cdims", lambda b: dict(X=b.S(), r=np.array([1]), cd=np.array([0] + list(range(2, b.N)))), lambda o: o.X.to_sptenmat(o.r, o.cd))
    reg(c, "to_sptenmat", "cyclic-fc", lambda b: dict(X=b.S(), r=np.array([1])), lambda o: o.X.to_sptenmat(o.r, cdims_cyclic="fc"))
    reg(c, "to_sptenmat", "cyclic-bc", lambda b: dict(X=b.S(), r=np.array([1])), lambda o: o.X.to_sptenmat(o.r, cdims_cyclic="bc"))
    reg(c, "to_sptenmat", "all-rows", lambda b: dict(X=b.S(), r=np.arange(b.N)), lambda o: o.X.to_sptenmat(o.r))
    reg(c, "ttm", "single", lambda b: dict(X=b.S(), M=b.mat(0)), lambda o: o.X.ttm(o.M, 0))
    reg(c, "ttm", "single,transpose", lambda b: dict(X=b.S(), M=b.mat(0).T.copy()), lambda o: o.X.ttm(o.M, 0, transpose=True))
    reg(c, "ttm", "all", lambda b: dict(X=b.S(), M=[b.mat(n) for n in range(b.N)]), lambda o: o.X.ttm(o.M))
    reg(c, "ttm", "exclude", lambda b: dict(X=b.S(), M=[b.mat(n) for n in range(b.N)], ex=np.array([1])), lambda o: o.X.ttm(o.M, exclude_dims=o.ex))
    reg(c, "ttv", "single", lambda b: dict(X=b.S(), v=b.vec(0)), lambda o: o.X.ttv(o.v, 0))
    reg(c, "ttv", "single,last", lambda b: dict(X=b.S(), v=b.vec(b.N - 1)), lambda o, b: o.X.ttv(o.v, b.N - 1))
    reg(c, "ttv", "all", lambda b: dict(X=b.S(), v=b.vecs()), lambda o: o.X.ttv(o.v), kind="scalar")
    reg(c, "ttv", "dims-array", lambda b: dict(X=b.S(), v=b.vecs([0, b.N - 1]), dims=np.array([0, b.N - 1])), lambda o: o.X.ttv(o.v, o.dims))
    reg(c, "ttv", "exclude", lambda b: dict(X=b.S(), v=b.vecs(), ex=np.array([0])), lambda o: o.X.ttv(o.v, exclude_dims=o.ex))
    import operator as op
    for nm, f in (("__add__", op.add), ("__sub__", op.sub), ("__mul__", op.mul), ("__truediv__", op.truediv),
                  ("__eq__", op.eq), ("__ne__", op.ne), ("__lt__", op.lt), ("__le__", op.le), ("__gt__", op.gt), ("__ge__", op.ge)):
        reg(c, nm, "sptensor", both, lambda o, f=f: f(o.X, o.Y))
        reg(c, nm, "tensor", withT, lambda o, f=f: f(o.X, o.Y))
        reg(c, nm, "scalar", XS, lambda o, f=f: f(o.X, 2.0))
        if nm in ("__add__", "__sub__", "__mul__", "__truediv__"):
            reg(c, nm, "neutral-scalar", XS, lambda o, f=f, z=(0.0 if nm in ("__add__", "__sub__") else 1.0): f(o.X, z))
    reg(c, "__mul__", "ktensor", lambda b: dict(X=b.S(), Y=b.K()), lambda o: o.X * o.Y)
    reg(c, "__neg__", "default", XS, lambda o: -o.X)
    reg(c, "__pos__", "default", XS, lambda o: +o.X)
    reg(c, "__rmul__", "scalar", XS, lambda o: 2.0 * o.X)
    reg(c, "__rmul__", "one", XS, lambda o: 1 * o.X)
    reg(c, "__rtruediv__", "scalar", XS, lambda o: 2.0 / o.X)
    z = lambda b: (0,) * b.N
    reg(c, "__getitem__", "element", XS, lambda o, b: o.X[z(b)], kind="scalar")
    reg(c, "__getitem__", "full-slice", XS, lambda o, b: o.X[(slice(None),) * b.N])
    reg(c, "__getitem__", "sub-slice", XS, lambda o, b: o.X[(slice(0, 2),) + (slice(None),) * (b.N - 1)])
    reg(c, "__getitem__", "int+slices", XS, lambda o, b: o.X[(0,) + (slice(None),) * (b.N - 1)])
    reg(c, "__getitem__", "subscripts", lambda b: dict(X=b.S(), s=b.subs()), lambda o: o.X[o.s])
    reg(c, "__getitem__", "linear-array", lambda b: dict(X=b.S(), i=np.array([0, b.n - 1])), lambda o: o.X[o.i])
    reg(c, "__getitem__", "linear-list", lambda b: dict(X=b.S(), i=[0, 1]), lambda o: o.X[o.i])

    def setit(o, key, val):
        o.X[key] = val
        return None
    I = dict(kind="inplace", recv="X")
    reg(c, "__setitem__", "element", XS, lambda o, b: setit(o, z(b), 99.0), **I)
    reg(c, "__setitem__", "element-new", XS, lambda o, b: setit(o, tuple(s - 1 for s in b.shape), 99.0), **I)
    reg(c, "__setitem__", "element-zero", XS, lambda o, b: setit(o, z(b), 0.0), **I)
    reg(c, "__setitem__", "slice,scalar", XS, lambda o, b: setit(o, (slice(None),) * b.N, 5.0), **I)
    reg(c, "__setitem__", "slice,sptensor", lambda b: dict(X=b.S(), v=b.S(2)), lambda o, b: setit(o, (slice(None),) * b.N, o.v), **I)
    reg(c, "__setitem__", "subscripts,vals", lambda b: dict(X=b.S(), s=b.subs(1), v=b.vals(1)), lambda o: setit(o, o.s, o.v), **I)
    reg(c, "__setitem__", "subscripts,existing", lambda b: dict(X=b.S(), s=b.subs(), v=b.vals(3)), lambda o: setit(o, o.s, o.v), **I)
    reg(c, "__setitem__", "subscripts,scalar", lambda b: dict(X=b.S(), s=b.subs(1)), lambda o: setit(o, o.s, 7.0), **I)
    reg(c, "__setitem__", "grow,subscript", lambda b: dict(X=b.S(), s=np.array([list(b.shape)])), lambda o: setit(o, o.s, 3.0), **I)
    reg(c, "__setitem__", "on-empty", lambda b: dict(X=b.ttb.sptensor(shape=b.shape), s=b.subs(), v=b.vals()), lambda o: setit(o, o.s, o.v), **I)


_sptensor_table()

# ---- ktensor --------------------------------------------------------------------------------------------
def _ktensor_table():
    c = "ktensor"
    XK = X("K")
    both = lambda b: dict(X=b.K(), Y=b.K(off=1))
    reg(c, "__init__", "copy=True", lambda b: dict(f=b.fm(), w=np.array([2.0, 3.0])), lambda o, b: b.ttb.ktensor(o.f, o.w, copy=True))
    reg(c, "__init__", "copy=True,no-weights", lambda b: dict(f=b.fm()), lambda o, b: b.ttb.ktensor(o.f, copy=True))
    reg(c, "__init__", "copy=False", lambda b: dict(f=b.fm(), w=np.array([2.0, 3.0])), lambda o, b: b.ttb.ktensor(o.f, o.w, copy=False), kind="nocopy")
    I = dict(kind="inplace", recv="X")
    reg(c, "arrange", "default", XK, lambda o: o.X.arrange(), **I)
    reg(c, "arrange", "weight_factor", XK, lambda o: o.X.arrange(weight_factor=0), **I)
    reg(c, "arrange", "permutation-array", lambda b: dict(X=b.K(), p=np.array([1, 0])), lambda o: o.X.arrange(permutation=o.p), **I)
    reg(c, "arrange", "permutation-list", lambda b: dict(X=b.K(), p=[1, 0]), lambda o: o.X.arrange(permutation=o.p), **I)
    reg(c, "copy", "default", XK, lambda o: o.X.copy())
    reg(c, "__deepcopy__", "default", XK, lambda o: _copy.deepcopy(o.X))
    for nm in ("weights", "factor_matrices"):
        reg(c, nm, "attr", XK, lambda o, nm=nm: getattr(o.X, nm), kind="attr")
    reg(c, "double", "default", XK, lambda o: o.X.double())
    reg(c, "extract", "int", XK, lambda o: o.X.extract(1))
    reg(c, "extract", "list", lambda b: dict(X=b.K(), i=[1, 0]), lambda o: o.X.extract(o.i))
    reg(c, "extract", "array-all", lambda b: dict(X=b.K(), i=np.array([0, 1])), lambda o: o.X.extract(o.i))
    reg(c, "extract", "none", XK, lambda o: o.X.extract())
    reg(c, "fixsigns", "default", XK, lambda o: o.X.fixsigns(), **I)
    reg(c, "fixsigns", "negative-columns", lambda b: dict(X=b.ttb.ktensor([-f for f in b.fm()], np.array([2.0, 3.0]))), lambda o: o.X.fixsigns(), **I)
    reg(c, "fixsigns", "other", lambda b: dict(X=b.K(), Y=b.ttb.ktensor([-f for f in b.fm()][:2] + b.fm()[2:], np.array([2.0, 3.0]))), lambda o: o.X.fixsigns(o.Y), **I)
    reg(c, "from_function", "default", lambda b: dict(), lambda o, b: b.ttb.ktensor.from_function(np.ones, b.shape, 2))
    reg(c, "from_vector", "with-weights", lambda b: dict(d=np.arange(1.0, 2 + 2 * sum(b.shape) + 1)), lambda o, b: b.ttb.ktensor.from_vector(o.d, b.shape, True))
    reg(c, "from_vector", "no-weights", lambda b: dict(d=np.arange(1.0, 2 * sum(b.shape) + 1)), lambda o, b: b.ttb.ktensor.from_vector(o.d, b.shape, False))
    reg(c, "from_vector", "column-vector", lambda b: dict(d=np.arange(1.0, 2 * sum(b.shape) + 1).reshape(-1, 1)), lambda o, b: b.ttb.ktensor.from_vector(o.d, b.shape, False))
    reg(c, "full", "default", XK, lambda o: o.X.full())
    reg(c, "to_tensor", "default", XK, lambda o: o.X.to_tensor())
    reg(c, "innerprod", "ktensor", both, lambda o: o.X.innerprod(o.Y), kind="scalar")
    reg(c, "innerprod", "tensor", lambda b: dict(X=b.K(), Y=b.T()), lambda o: o.X.innerprod(o.Y), kind="scalar")
    reg(c, "innerprod", "sptensor", lambda b: dict(X=b.K(), Y=b.S()), lambda o: o.X.innerprod(o.Y), kind="scalar")
    reg(c, "innerprod", "ttensor", lambda b: dict(X=b.K(), Y=b.TT()), lambda o: o.X.innerprod(o.Y), kind="scalar")
    reg(c, "isequal", "ktensor", both, lambda o: o.X.isequal(o.Y), kind="scalar")
    reg(c, "issymmetric", "default", XK, lambda o: o.X.issymmetric(), shapes=CUBE, kind="scalar")
    reg(c, "issymmetric", "diffs", XK, lambda o: o.X.issymmetric(return_diffs=True), shapes=CUBE)
    reg(c, "mask", "tensor", lambda b: dict(X=b.K(), W=b.W()), lambda o: o.X.mask(o.W))
    reg(c, "mask", "sptensor", lambda b: dict(X=b.K(), W=b.WS()), lambda o: o.X.mask(o.W))
    reg(c, "mttkrp", "list", lambda b: dict(X=b.K(), U=b.fm(R=3, off=1)), lambda o: o.X.mttkrp(o.U, 0))
    reg(c, "mttkrp", "ktensor", lambda b: dict(X=b.K(), U=b.K(off=1)), lambda o, b: o.X.mttkrp(o.U, b.N - 1))
    for nm in ("ncomponents", "ndims", "order", "shape"):
        reg(c, nm, "property", XK, lambda o, nm=nm: getattr(o.X, nm), kind="property")
    reg(c, "norm", "default", XK, lambda o: o.X.norm(), kind="scalar")
    reg(c, "normalize", "default", XK, lambda o: o.X.normalize(), **I)
    reg(c, "normalize", "weight_factor=all", XK, lambda o: o.X.normalize("all"), **I)
    reg(c, "normalize", "weight_factor=int", XK, lambda o: o.X.normalize(1), **I)
    reg(c, "normalize", "sort", XK, lambda o: o.X.normalize(sort=True), **I)
    reg(c, "normalize", "normtype=1", XK, lambda o: o.X.normalize(normtype=1), **I)
    reg(c, "normalize", "mode", XK, lambda o: o.X.normalize(mode=0), **I)
    reg(c, "nvecs", "r=1", XK, lambda o: o.X.nvecs(0, 1))
    reg(c, "nvecs", "r=1,last-mode", XK, lambda o, b: o.X.nvecs(b.N - 1, 1))
    reg(c, "nvecs", "r=1,middle-mode", XK, lambda o: o.X.nvecs(1, 1))
    reg(c, "nvecs", "r=1,every-mode-in-turn", XK, lambda o, b: [o.X.nvecs(n, 1) for n in range(b.N)])
    reg(c, "nvecs", "r=2,noflip", XK, lambda o: o.X.nvecs(0, 2, flipsign=False), shapes=NOSINGLE)
    reg(c, "permute", "identity", lambda b: dict(X=b.K(), order=np.arange(b.N)), lambda o: o.X.permute(o.order))
    reg(c, "permute", "reverse", lambda b: dict(X=b.K(), order=np.arange(b.N)[::-1].copy()), lambda o: o.X.permute(o.order))
    reg(c, "redistribute", "mode0", XK, lambda o: o.X.redistribute(0), **I)
    reg(c, "redistribute", "last", XK, lambda o, b: o.X.redistribute(b.N - 1), **I)
    reg(c, "score", "default", both, lambda o: o.X.score(o.Y))
    reg(c, "score", "no-penalty,threshold", both, lambda o: o.X.score(o.Y, weight_penalty=False, threshold=0.5))
    reg(c, "symmetrize", "default", XK, lambda o: o.X.symmetrize(), shapes=CUBE)
    reg(c, "to_tenmat", "rdims", lambda b: dict(X=b.K(), r=np.array([0])), lambda o: o.X.to_tenmat(o.r))
    reg(c, "to_tenmat", "rdims+cdims", lambda b: dict(X=b.K(), r=np.array([1]), cd=np.array([0] + list(range(2, b.N)))), lambda o: o.X.to_tenmat(o.r, o.cd))
    reg(c, "to_tenmat", "copy=False", lambda b: dict(X=b.K(), r=np.array([0])), lambda o: o.X.to_tenmat(o.r, copy=False), kind="pure")
    reg(c, "tolist", "all", XK, lambda o: o.X.tolist())
    reg(c, "tolist", "mode", XK, lambda o: o.X.tolist(0))
    reg(c, "tolist", "mode,unit-weights", lambda b: dict(X=b.ttb.ktensor(b.fm())), lambda o: o.X.tolist(0))
    reg(c, "tolist", "all,unit-weights", lambda b: dict(X=b.ttb.ktensor(b.fm())), lambda o: o.X.tolist())
    reg(c, "tovec", "with-weights", XK, lambda o: o.X.tovec())
    reg(c, "tovec", "no-weights", XK, lambda o: o.X.tovec(False))
    reg(c, "ttv", "single", lambda b: dict(X=b.K(), v=b.vec(0)), lambda o: o.X.ttv(o.v, 0))
    reg(c, "ttv", "single,last", lambda b: dict(X=b.K(), v=b.vec(b.N - 1)), lambda o, b: o.X.ttv(o.v, b.N - 1))
    reg(c, "ttv", "all", lambda b: dict(X=b.K(), v=b.vecs()), lambda o: o.X.ttv(o.v), kind="scalar", shapes=NOSINGLE)   # pyttb rejects a length-1 vector here (not C05)
    reg(c, "ttv", "dims-array", lambda b: dict(X=b.K(), v=b.vecs([0, b.N - 1]), dims=np.array([0, b.N - 1])), lambda o: o.X.ttv(o.v, o.dims))
    reg(c, "ttv", "exclude", lambda b: dict(X=b.K(), v=b.vecs(), ex=np.array([0])), lambda o: o.X.ttv(o.v, exclude_dims=o.ex), shapes=NOSINGLE)
    reg(c, "update", "single-mode", lambda b: dict(X=b.K(), d=np.arange(1.0, 2 * b.shape[0] + 1)), lambda o: o.X.update(0, o.d), **I)
    reg(c, "update", "all-modes+weights", lambda b: dict(X=b.K(), m=list(range(-1, b.N)), d=np.arange(1.0, 2 + 2 * sum(b.shape) + 1)), lambda o: o.X.update(o.m, o.d), **I)
    reg(c, "update", "some-modes", lambda b: dict(X=b.K(), m=[0, b.N - 1], d=np.arange(1.0, 2 * (b.shape[0] + b.shape[-1]) + 1)), lambda o: o.X.update(o.m, o.d), **I)
    skip(c, "viz", "plotting front-end (matplotlib figure side effects); DESIGN §6.7 lists ktensor.viz as neither modelled nor verified")
    reg(c, "__add__", "ktensor", both, lambda o: o.X + o.Y)
    reg(c, "__sub__", "ktensor", both, lambda o: o.X - o.Y)
    reg(c, "__mul__", "scalar", XK, lambda o: o.X * 2.0)
    reg(c, "__mul__", "one", XK, lambda o: o.X * 1)
    reg(c, "__rmul__", "scalar", XK, lambda o: 2.0 * o.X)
    reg(c, "__neg__", "default", XK, lambda o: -o.X)
    reg(c, "__pos__", "default", XK, lambda o: +o.X)


_ktensor_table()

# ---- ttensor --------------------------------------------------------------------------------------------
def _ttensor_table():
    c = "ttensor"
    XT = X("TT")
    reg(c, "__init__", "copy=True", lambda b: dict(core=b.TT().core, f=b.TT().factor_matrices), lambda o, b: b.ttb.ttensor(o.core, o.f, copy=True))
    reg(c, "__init__", "copy=False", lambda b: dict(core=b.TT().core, f=b.TT().factor_matrices), lambda o, b: b.ttb.ttensor(o.core, o.f, copy=False), kind="nocopy")
    reg(c, "__init__", "copy=True,sparse-core", lambda b: dict(core=b.TT().core.to_sptensor(), f=b.TT().factor_matrices), lambda o, b: b.ttb.ttensor(o.core, o.f, copy=True))
    reg(c, "copy", "default", XT, lambda o: o.X.copy())
    reg(c, "__deepcopy__", "default", XT, lambda o: _copy.deepcopy(o.X))
    for nm in ("core", "factor_matrices"):
        reg(c, nm, "attr", XT, lambda o, nm=nm: getattr(o.X, nm), kind="attr")
    reg(c, "double", "default", XT, lambda o: o.X.double())
    reg(c, "full", "default", XT, lambda o: o.X.full())
    reg(c, "full", "identity-factors", lambda b: dict(X=b.ttb.ttensor(b.T(), [np.eye(s) for s in b.shape])), lambda o: o.X.full())
    reg(c, "to_tensor", "default", XT, lambda o: o.X.to_tensor())
    reg(c, "innerprod", "ttensor", lambda b: dict(X=b.TT(), Y=b.TT(1)), lambda o: o.X.innerprod(o.Y), kind="scalar")
    reg(c, "innerprod", "tensor", lambda b: dict(X=b.TT(), Y=b.T()), lambda o: o.X.innerprod(o.Y), kind="scalar")
    reg(c, "innerprod", "sptensor", lambda b: dict(X=b.TT(), Y=b.S()), lambda o: o.X.innerprod(o.Y), kind="scalar")
    reg(c, "innerprod", "ktensor", lambda b: dict(X=b.TT(), Y=b.K()), lambda o: o.X.innerprod(o.Y), kind="scalar")
    reg(c, "isequal", "ttensor", lambda b: dict(X=b.TT(), Y=b.TT()), lambda o: o.X.isequal(o.Y), kind="scalar")
    reg(c, "mttkrp", "list", lambda b: dict(X=b.TT(), U=b.fm()), lambda o: o.X.mttkrp(o.U, 0))
    reg(c, "mttkrp", "ktensor", lambda b: dict(X=b.TT(), U=b.K()), lambda o, b: o.X.mttkrp(o.U, b.N - 1))
    for nm in ("ndims", "order", "shape"):
        reg(c, nm, "property", XT, lambda o, nm=nm: getattr(o.X, nm), kind="property")
    reg(c, "norm", "default", XT, lambda o: o.X.norm(), kind="scalar")
    reg(c, "nvecs", "r=1", XT, lambda o: o.X.nvecs(0, 1))
    reg(c, "permute", "identity", lambda b: dict(X=b.TT(), order=np.arange(b.N)), lambda o: o.X.permute(o.order))
    reg(c, "permute", "reverse", lambda b: dict(X=b.TT(), order=np.arange(b.N)[::-1].copy()), lambda o: o.X.permute(o.order))
    reg(c, "reconstruct", "default", XT, lambda o: o.X.reconstruct())
    reg(c, "reconstruct", "samples-int", XT, lambda o: o.X.reconstruct(1, 0))
    reg(c, "reconstruct", "samples-array", lambda b: dict(X=b.TT(), s=np.array([0, 1])), lambda o: o.X.reconstruct(o.s, 0))
    reg(c, "reconstruct", "samples-lists", lambda b: dict(X=b.TT(), s=[np.array([0, 1]), np.array([0])], m=np.array([0, b.N - 1])), lambda o: o.X.reconstruct(o.s, o.m))
    reg(c, "ttm", "single", lambda b: dict(X=b.TT(), M=b.mat(0)), lambda o: o.X.ttm(o.M, 0))
    reg(c, "ttm", "single,transpose", lambda b: dict(X=b.TT(), M=b.mat(0).T.copy()), lambda o: o.X.ttm(o.M, 0, transpose=True))
    reg(c, "ttm", "all", lambda b: dict(X=b.TT(), M=[b.mat(n) for n in range(b.N)]), lambda o: o.X.ttm(o.M))
    reg(c, "ttm", "exclude", lambda b: dict(X=b.TT(), M=[b.mat(n) for n in range(b.N)], ex=np.array([1])), lambda o: o.X.ttm(o.M, exclude_dims=o.ex))
    reg(c, "ttv", "single", lambda b: dict(X=b.TT(), v=b.vec(0)), lambda o: o.X.ttv(o.v, 0))
    reg(c, "ttv", "all", lambda b: dict(X=b.TT(), v=b.vecs()), lambda o: o.X.ttv(o.v), kind="scalar")
    reg(c, "ttv", "dims-array", lambda b: dict(X=b.TT(), v=b.vecs([0, b.N - 1]), dims=np.array([0, b.N - 1])), lambda o: o.X.ttv(o.v, o.dims))
    reg(c, "ttv", "exclude", lambda b: dict(X=b.TT(), v=b.vecs(), ex=np.array([0])), lambda o: o.X.ttv(o.v, exclude_dims=o.ex))
    reg(c, "__mul__", "scalar", XT, lambda o: o.X * 2.0)
    reg(c, "__mul__", "one", XT, lambda o: o.X * 1)
    reg(c, "__rmul__", "scalar", XT, lambda o: 2.0 * o.X)
    reg(c, "__neg__", "default", XT, lambda o: -o.X)
    reg(c, "__pos__", "default", XT, lambda o: +o.X)


_ttensor_table()


# ---- tenmat ---------------------------------------------------------------------------------------------
def _tenmat_table():
    c = "tenmat"
    XM = X("TM")
    both = lambda b: dict(X=b.TM(), Y=b.TM(1))
    mk = lambda b: dict(d=b.arr().reshape((b.shape[0], b.n // b.shape[0]), order="F").copy(order="F"), r=np.array([0]), cd=np.arange(1, b.N))
    reg(c, "__init__", "copy=True", mk, lambda o, b: b.ttb.tenmat(o.d, o.r, o.cd, b.shape, copy=True))
    reg(c, "__init__", "copy=True,rdims-only", mk, lambda o, b: b.ttb.tenmat(o.d, o.r, tshape=b.shape, copy=True))
    reg(c, "__init__", "copy=False", mk, lambda o, b: b.ttb.tenmat(o.d, o.r, o.cd, b.shape, copy=False), kind="nocopy")
    reg(c, "copy", "default", XM, lambda o: o.X.copy())
    reg(c, "__deepcopy__", "default", XM, lambda o: _copy.deepcopy(o.X))
    for nm in ("cindices", "rindices", "data", "tshape"):
        reg(c, nm, "attr", XM, lambda o, nm=nm: getattr(o.X, nm), kind="attr")
    reg(c, "ctranspose", "default", XM, lambda o: o.X.ctranspose())
    reg(c, "double", "default", XM, lambda o: o.X.double())
    reg(c, "isequal", "tenmat", both, lambda o: o.X.isequal(o.Y), kind="scalar")
    for nm in ("ndims", "order", "shape"):
        reg(c, nm, "property", XM, lambda o, nm=nm: getattr(o.X, nm), kind="property")
    reg(c, "norm", "default", XM, lambda o: o.X.norm(), kind="scalar")
    reg(c, "to_tensor", "copy=True", XM, lambda o: o.X.to_tensor())
    reg(c, "to_tensor", "copy=True,permuted", lambda b: dict(X=b.T().to_tenmat(np.array([1]))), lambda o: o.X.to_tensor())
    reg(c, "to_tensor", "copy=False", XM, lambda o: o.X.to_tensor(copy=False), kind="nocopy")
    reg(c, "__add__", "tenmat", both, lambda o: o.X + o.Y)
    reg(c, "__add__", "scalar", XM, lambda o: o.X + 2.0)
    reg(c, "__add__", "zero", XM, lambda o: o.X + 0)
    reg(c, "__sub__", "tenmat", both, lambda o: o.X - o.Y)
    reg(c, "__sub__", "scalar", XM, lambda o: o.X - 2.0)
    reg(c, "__mul__", "scalar", XM, lambda o: o.X * 2.0)
    reg(c, "__mul__", "one", XM, lambda o: o.X * 1)
    reg(c, "__mul__", "tenmat", lambda b: dict(X=b.TM(), Y=b.TM(1).ctranspose()), lambda o: o.X * o.Y)
    reg(c, "__radd__", "scalar", XM, lambda o: 2.0 + o.X)
    reg(c, "__rsub__", "scalar", XM, lambda o: 2.0 - o.X)
    reg(c, "__rmul__", "scalar", XM, lambda o: 2.0 * o.X)
    reg(c, "__neg__", "default", XM, lambda o: -o.X)
    reg(c, "__pos__", "default", XM, lambda o: +o.X)
    reg(c, "__getitem__", "element", XM, lambda o: o.X[0, 0], kind="scalar")
    reg(c, "__getitem__", "row", XM, lambda o: o.X[0, :])
    reg(c, "__getitem__", "full-slice", XM, lambda o: o.X[:, :])
    reg(c, "__getitem__", "fancy", lambda b: dict(X=b.TM(), i=np.array([0, 1])), lambda o: o.X[o.i, :])

    def setit(o, key, val):
        o.X[key] = val
        return None
    I = dict(kind="inplace", recv="X")
    reg(c, "__setitem__", "element", XM, lambda o: setit(o, (0, 0), 9.0), **I)
    reg(c, "__setitem__", "row,ndarray", lambda b: dict(X=b.TM(), v=np.arange(1.0, b.n // b.shape[0] + 1)), lambda o: setit(o, (0, slice(None)), o.v), **I)
    reg(c, "__setitem__", "full,ndarray", lambda b: dict(X=b.TM(), v=b.arr(2).reshape((b.shape[0], -1), order="F").copy()), lambda o: setit(o, (slice(None), slice(None)), o.v), **I)


_tenmat_table()


# ---- sptenmat -------------------------------------------------------------------------------------------
def _sptenmat_table():
    c = "sptenmat"
    XM = X("STM")

    def mk(b):
        m = b.STM()
        return dict(s=m.subs.copy(), v=m.vals.copy(), r=np.array([0]), cd=np.arange(1, b.N))
    reg(c, "__init__", "copy=True", mk, lambda o, b: b.ttb.sptenmat(o.s, o.v, o.r, o.cd, b.shape, copy=True))
    reg(c, "__init__", "copy=False", mk, lambda o, b: b.ttb.sptenmat(o.s, o.v, o.r, o.cd, b.shape, copy=False), kind="nocopy")
    reg(c, "copy", "default", XM, lambda o: o.X.copy())
    reg(c, "__deepcopy__", "default", XM, lambda o: _copy.deepcopy(o.X))
    for nm in ("cdims", "rdims", "subs", "vals", "tshape"):
        reg(c, nm, "attr", XM, lambda o, nm=nm: getattr(o.X, nm), kind="attr")
    reg(c, "double", "default", XM, lambda o: o.X.double())
    reg(c, "from_array", "coo", lambda b: dict(A=b.STM().double(), r=np.array([0])), lambda o, b: b.ttb.sptenmat.from_array(o.A, o.r, tshape=b.shape))
    reg(c, "from_array", "ndarray", lambda b: dict(A=b.STM().double().toarray(), r=np.array([0]), cd=np.arange(1, b.N)), lambda o, b: b.ttb.sptenmat.from_array(o.A, o.r, o.cd, b.shape))
    reg(c, "full", "default", XM, lambda o: o.X.full())
    reg(c, "isequal", "sptenmat", lambda b: dict(X=b.STM(), Y=b.STM()), lambda o: o.X.isequal(o.Y), kind="scalar")
    for nm in ("nnz", "order", "shape"):
        reg(c, nm, "property", XM, lambda o, nm=nm: getattr(o.X, nm), kind="property")
    reg(c, "norm", "default", XM, lambda o: o.X.norm(), kind="scalar")
    reg(c, "to_sptensor", "default", XM, lambda o: o.X.to_sptensor())
    reg(c, "to_sptensor", "permuted", lambda b: dict(X=b.S().to_sptenmat(np.array([1]))), lambda o: o.X.to_sptensor())
    reg(c, "__neg__", "default", XM, lambda o: -o.X)
    reg(c, "__pos__", "default", XM, lambda o: +o.X)

    def setit(o, key, val):
        o.X[key] = val
        return None
    reg(c, "__setitem__", "element", XM, lambda o: setit(o, (0, 0), 9.0), kind="inplace", recv="X")
    reg(c, "__setitem__", "new-element", XM, lambda o: setit(o, (1, 1), 9.0), kind="inplace", recv="X")


_sptenmat_table()


# ---- sumtensor ------------------------------------------------------------------------------------------
def _sumtensor_table():
    c = "sumtensor"
    XS = X("SUM")
    reg(c, "__init__", "copy=True", lambda b: dict(p=[b.T(), b.K(), b.S(), b.TT()]), lambda o, b: b.ttb.sumtensor(o.p, copy=True))
    reg(c, "__init__", "copy=False", lambda b: dict(p=[b.T(), b.K()]), lambda o, b: b.ttb.sumtensor(o.p, copy=False), kind="nocopy")
    reg(c, "copy", "default", XS, lambda o: o.X.copy())
    reg(c, "__deepcopy__", "default", XS, lambda o: _copy.deepcopy(o.X))
    reg(c, "parts", "attr", XS, lambda o: o.X.parts, kind="attr")
    reg(c, "double", "default", XS, lambda o: o.X.double())
    reg(c, "full", "default", XS, lambda o: o.X.full())
    reg(c, "full", "single-dense-part", lambda b: dict(X=b.ttb.sumtensor([b.T()])), lambda o: o.X.full())
    reg(c, "to_tensor", "default", XS, lambda o: o.X.to_tensor())
    reg(c, "to_tensor", "single-dense-part", lambda b: dict(X=b.ttb.sumtensor([b.T()])), lambda o: o.X.to_tensor())
    reg(c, "innerprod", "tensor", lambda b: dict(X=b.SUM(), Y=b.T(1)), lambda o: o.X.innerprod(o.Y), kind="scalar")
    reg(c, "innerprod", "ktensor", lambda b: dict(X=b.SUM(), Y=b.K(off=1)), lambda o: o.X.innerprod(o.Y), kind="scalar")
    reg(c, "mttkrp", "list", lambda b: dict(X=b.SUM(), U=b.fm()), lambda o: o.X.mttkrp(o.U, 0))
    reg(c, "mttkrp", "ktensor", lambda b: dict(X=b.SUM(), U=b.K(off=1)), lambda o, b: o.X.mttkrp(o.U, b.N - 1))
    for nm in ("ndims", "order", "shape"):
        reg(c, nm, "property", XS, lambda o, nm=nm: getattr(o.X, nm), kind="property")
    reg(c, "norm", "default", XS, lambda o: o.X.norm(), kind="scalar")
    reg(c, "ttv", "single", lambda b: dict(X=b.SUM(), v=b.vec(0)), lambda o: o.X.ttv(o.v, 0))
    reg(c, "ttv", "all", lambda b: dict(X=b.SUM(), v=b.vecs()), lambda o: o.X.ttv(o.v), kind="scalar", shapes=NOSINGLE)
    reg(c, "ttv", "exclude", lambda b: dict(X=b.SUM(), v=b.vecs(), ex=np.array([0])), lambda o: o.X.ttv(o.v, exclude_dims=o.ex), shapes=NOSINGLE)
    reg(c, "__add__", "tensor", lambda b: dict(X=b.SUM(), Y=b.T(1)), lambda o: o.X + o.Y)
    reg(c, "__add__", "ktensor", lambda b: dict(X=b.SUM(), Y=b.K(off=1)), lambda o: o.X + o.Y)
    reg(c, "__add__", "list", lambda b: dict(X=b.SUM(), Y=[b.S(), b.TT()]), lambda o: o.X + o.Y)
    reg(c, "__radd__", "tensor", lambda b: dict(X=b.SUM(), Y=b.T(1)), lambda o: o.Y + o.X)
    reg(c, "__radd__", "sptensor", lambda b: dict(X=b.SUM(), Y=b.S(1)), lambda o: o.X.__radd__(o.Y))
    reg(c, "__neg__", "default", XS, lambda o: -o.X)
    reg(c, "__pos__", "default", XS, lambda o: +o.X)


_sumtensor_table()

# ---- top-level functions and algorithm entry points --------------------------------------------------
def _pos(b, off=0):
    """non-negative count-like dense data for cp_apr / gcp"""
    return b.T(off)


def _M(f, *a, **k):
    """model part of an algorithm's (model, initial guess, info) result; the echoed guess/params are measured apart"""
    res = f(*a, **k)
    return (res[0], {kk: v for kk, v in res[2].items() if kk != "params"})


def _E(f, *a, **k):
    """echo part: the returned initial guess and the parameter record"""
    res = f(*a, **k)
    return (res[1], res[2].get("params"))


def _toplevel_table():
    c = "ttb"
    ALG = [(2, 3, 4), (3, 2, 2)]
    # cp_als ------------------------------------------------------------------------------------------
    kw = dict(maxiters=2, printitn=0)
    reg(c, "cp_als", "init=ktensor,dense", lambda b: dict(X=b.T(), init=b.K()), lambda o, b: _M(b.ttb.cp_als, o.X, 2, init=o.init, **kw), shapes=ALG)
    reg(c, "cp_als", "init=ktensor,sparse", lambda b: dict(X=b.S(), init=b.K()), lambda o, b: _M(b.ttb.cp_als, o.X, 2, init=o.init, **kw), shapes=ALG)
    reg(c, "cp_als", "init=ktensor,ttensor", lambda b: dict(X=b.TT(), init=b.K()), lambda o, b: _M(b.ttb.cp_als, o.X, 2, init=o.init, **kw), shapes=ALG)
    reg(c, "cp_als", "init=ktensor,sumtensor", lambda b: dict(X=b.SUM(), init=b.K()), lambda o, b: _M(b.ttb.cp_als, o.X, 2, init=o.init, **kw), shapes=ALG)
    reg(c, "cp_als", "init=ktensor,dimorder,optdims", lambda b: dict(X=b.T(), init=b.K(), do=np.arange(b.N)[::-1].copy(), od=np.array([0, 1])),
        lambda o, b: _M(b.ttb.cp_als, o.X, 2, init=o.init, dimorder=o.do, optdims=o.od, **kw), shapes=ALG)
    reg(c, "cp_als", "init=ktensor,nofixsigns", lambda b: dict(X=b.T(), init=b.K()), lambda o, b: _M(b.ttb.cp_als, o.X, 2, init=o.init, fixsigns=False, **kw), shapes=ALG)
    reg(c, "cp_als", "init=nvecs", lambda b: dict(X=b.T()), lambda o, b: _M(b.ttb.cp_als, o.X, 2, init="nvecs", **kw), shapes=ALG)
    reg(c, "cp_als", "init=random", lambda b: dict(X=b.T()), lambda o, b: _M(b.ttb.cp_als, o.X, 2, init="random", **kw), shapes=ALG)
    # cp_apr ------------------------------------------------------------------------------------------
    akw = dict(maxiters=2, printitn=0, printinneritn=0, maxinneriters=2)

    def kz(b):      # initial guess with one zero row (mode 0, row 0) — legal input; PDNR/PQNR "fix" such rows
        f = b.fm()
        f[0][0, :] = 0.0
        return b.ttb.ktensor(f, np.array([2.0, 3.0]))
    def pq_data(b, sparse=False):
        Xd = b.ttb.ktensor([np.array([[1.0, 1.0], [3.0, 4.0]]), np.array([[1.0, 6.0], [7.0, 8.0]])], np.array([1.0, 2.0])).full()
        return Xd.to_sptensor() if sparse else Xd

    def pq_init(b, zero=False):
        f0 = np.array([[0.69646919, 0.28613933], [0.22685145, 0.55131477]])
        f1 = np.array([[0.71946897, 0.42310646], [0.9807642, 0.68482974]])
        if zero:
            f0[0, :] = 0.0
        return b.ttb.ktensor([f0, f1])
    pkw = dict(maxiters=1, maxinneriters=1, printitn=0, printinneritn=0)
    P22 = [(2, 2)]
    reg(c, "cp_apr", "pqnr,init=ktensor,dense", lambda b: dict(X=pq_data(b), init=pq_init(b)), lambda o, b: _M(b.ttb.cp_apr, o.X, 2, algorithm="pqnr", init=o.init, **pkw), shapes=P22)
    reg(c, "cp_apr", "pqnr,init=ktensor,sparse", lambda b: dict(X=pq_data(b, True), init=pq_init(b)), lambda o, b: _M(b.ttb.cp_apr, o.X, 2, algorithm="pqnr", init=o.init, **pkw), shapes=P22)
    reg(c, "cp_apr", "pqnr,init=ktensor-with-zero-row", lambda b: dict(X=pq_data(b), init=pq_init(b, True)), lambda o, b: _M(b.ttb.cp_apr, o.X, 2, algorithm="pqnr", init=o.init, **pkw), shapes=P22)
    reg(c, "cp_apr", "pqnr,init=random", lambda b: dict(X=pq_data(b)), lambda o, b: _M(b.ttb.cp_apr, o.X, 2, algorithm="pqnr", init="random", **pkw), shapes=P22)
    for alg in ("mu", "pdnr"):
        for data, mk in (("dense", lambda b: b.T()), ("sparse", lambda b: b.S())):
            reg(c, "cp_apr", f"{alg},init=ktensor,{data}", lambda b, mk=mk: dict(X=mk(b), init=b.K()),
                lambda o, b, alg=alg: _M(b.ttb.cp_apr, o.X, 2, algorithm=alg, init=o.init, **akw), shapes=ALG)
        reg(c, "cp_apr", f"{alg},init=ktensor-with-zero-row", lambda b: dict(X=b.S(), init=kz(b)),
            lambda o, b, alg=alg: _M(b.ttb.cp_apr, o.X, 2, algorithm=alg, init=o.init, **akw), shapes=ALG)
        reg(c, "cp_apr", f"{alg},init=random", lambda b: dict(X=b.S()),
            lambda o, b, alg=alg: _M(b.ttb.cp_apr, o.X, 2, algorithm=alg, init="random", **akw), shapes=ALG)
    # gcp_opt -----------------------------------------------------------------------------------------
    def gcp(b, X, init, stochastic=False, mask=None, echo=False):
        from pyttb.gcp.optimizers import LBFGSB, Adam
        from pyttb.gcp.fg_setup import Objectives
        opt = Adam(max_iters=1, epoch_iters=2, printitn=0) if stochastic else LBFGSB(maxiter=2, iprint=-1)
        return (_E if echo else _M)(b.ttb.gcp_opt, X, 2, Objectives.GAUSSIAN, opt, init=init, mask=mask, printitn=0)
    reg(c, "gcp_opt", "lbfgsb,init=ktensor", lambda b: dict(X=b.T(), init=b.K()), lambda o, b: gcp(b, o.X, o.init), shapes=ALG)
    reg(c, "gcp_opt", "lbfgsb,init=list", lambda b: dict(X=b.T(), init=b.fm()), lambda o, b: gcp(b, o.X, o.init), shapes=ALG)
    reg(c, "gcp_opt", "lbfgsb,init=random", lambda b: dict(X=b.T()), lambda o, b: gcp(b, o.X, "random"), shapes=ALG)
    reg(c, "gcp_opt", "lbfgsb,init=ktensor,mask", lambda b: dict(X=b.T(), init=b.K(), W=b.W()), lambda o, b: gcp(b, o.X, o.init, mask=o.W), shapes=ALG)
    reg(c, "gcp_opt", "adam,init=ktensor,dense", lambda b: dict(X=b.T(), init=b.K()), lambda o, b: gcp(b, o.X, o.init, True), shapes=ALG)
    # the optimizer object handed to gcp_opt is an operand too: solving must not leave state in it, nor may the
    # result share arrays with it
    def mkopt(name):
        from pyttb.gcp.optimizers import LBFGSB, SGD, Adam, Adagrad
        if name == "lbfgsb":
            return LBFGSB(maxiter=2, iprint=-1)
        return {"sgd": SGD, "adam": Adam, "adagrad": Adagrad}[name](max_iters=1, epoch_iters=2, printitn=0)

    def gcp_o(b, X, init, opt):
        from pyttb.gcp.fg_setup import Objectives
        return _M(b.ttb.gcp_opt, X, 2, Objectives.GAUSSIAN, opt, init=init, printitn=0)
    for on in ("lbfgsb", "sgd", "adam", "adagrad"):
        reg(c, "gcp_opt", f"{on},optimizer-tracked,init=list", lambda b, on=on: dict(X=b.T(), init=b.fm(), opt=mkopt(on)),
            lambda o, b: gcp_o(b, o.X, o.init, o.opt), shapes=ALG)
    # hosvd / tucker_als ------------------------------------------------------------------------------
    reg(c, "hosvd", "tol", lambda b: dict(X=b.T()), lambda o, b: b.ttb.hosvd(o.X, 1e-4, verbosity=0), shapes=ALG)
    reg(c, "hosvd", "ranks=ndarray", lambda b: dict(X=b.T(), ranks=np.array([1] * b.N)), lambda o, b: b.ttb.hosvd(o.X, 1e-4, verbosity=0, ranks=o.ranks), shapes=ALG)
    reg(c, "hosvd", "ranks=list", lambda b: dict(X=b.T(), ranks=[1] * b.N), lambda o, b: b.ttb.hosvd(o.X, 1e-4, verbosity=0, ranks=o.ranks), shapes=ALG)
    reg(c, "hosvd", "zero-ranks=ndarray(chosen by tol)", lambda b: dict(X=b.T(), ranks=np.zeros(b.N, dtype=int)), lambda o, b: b.ttb.hosvd(o.X, 1e-4, verbosity=0, ranks=o.ranks), shapes=ALG)
    reg(c, "hosvd", "dimorder,not-sequential", lambda b: dict(X=b.T(), do=np.arange(b.N)[::-1].copy()), lambda o, b: b.ttb.hosvd(o.X, 1e-4, verbosity=0, dimorder=o.do, sequential=False), shapes=ALG)
    tkw = dict(maxiters=2, printitn=0)
    reg(c, "tucker_als", "init=list", lambda b: dict(X=b.T(), rank=np.array(b.ranks()), init=b.TT().factor_matrices), lambda o, b: _M(b.ttb.tucker_als, o.X, o.rank, init=o.init, **tkw), shapes=ALG)
    reg(c, "tucker_als", "init=list,dimorder", lambda b: dict(X=b.T(), rank=np.array(b.ranks()), init=b.TT().factor_matrices, do=np.arange(b.N)[::-1].copy()),
        lambda o, b: _M(b.ttb.tucker_als, o.X, o.rank, init=o.init, dimorder=o.do, **tkw), shapes=ALG)
    reg(c, "tucker_als", "init=nvecs,int-rank", lambda b: dict(X=b.T()), lambda o, b: _M(b.ttb.tucker_als, o.X, 2, init="nvecs", **tkw), shapes=ALG)
    reg(c, "tucker_als", "init=random", lambda b: dict(X=b.T(), rank=np.array(b.ranks())), lambda o, b: _M(b.ttb.tucker_als, o.X, o.rank, init="random", **tkw), shapes=ALG)
    # the echoed initial guess / parameter record (second result and info["params"]) ---------------------
    reg(c, "cp_als", "echo,init=ktensor", lambda b: dict(X=b.T(), init=b.K()), lambda o, b: _E(b.ttb.cp_als, o.X, 2, init=o.init, **kw), shapes=ALG)
    reg(c, "cp_apr", "echo,init=ktensor", lambda b: dict(X=b.S(), init=b.K()), lambda o, b: _E(b.ttb.cp_apr, o.X, 2, algorithm="mu", init=o.init, **akw), shapes=ALG)
    reg(c, "gcp_opt", "echo,init=list", lambda b: dict(X=b.T(), init=b.fm()), lambda o, b: gcp(b, o.X, o.init, echo=True), shapes=ALG)
    reg(c, "tucker_als", "echo,init=list", lambda b: dict(X=b.T(), rank=np.array(b.ranks()), init=b.TT().factor_matrices), lambda o, b: _E(b.ttb.tucker_als, o.X, o.rank, init=o.init, **tkw), shapes=ALG)
    # khatrirao and generators ------------------------------------------------------------------------
    reg(c, "khatrirao", "two", lambda b: dict(A=b.fm()[0], Bm=b.fm()[1]), lambda o, b: b.ttb.khatrirao(o.A, o.Bm))
    reg(c, "khatrirao", "list,reverse", lambda b: dict(U=b.fm()), lambda o, b: b.ttb.khatrirao(*o.U, reverse=True))
    reg(c, "khatrirao", "single-matrix", lambda b: dict(A=b.fm()[0]), lambda o, b: b.ttb.khatrirao(o.A))
    reg(c, "khatrirao", "single-column-vectors", lambda b: dict(A=b.vec(0).reshape(-1, 1), Bm=b.vec(1).reshape(-1, 1)), lambda o, b: b.ttb.khatrirao(o.A, o.Bm))
    reg(c, "tendiag", "default", lambda b: dict(e=np.array([1.0, 2.0])), lambda o, b: b.ttb.tendiag(o.e))
    reg(c, "tendiag", "shape", lambda b: dict(e=np.array([1.0, 2.0])), lambda o, b: b.ttb.tendiag(o.e, (3,) * b.N))
    reg(c, "sptendiag", "default", lambda b: dict(e=np.array([1.0, 2.0])), lambda o, b: b.ttb.sptendiag(o.e))
    reg(c, "sptendiag", "shape", lambda b: dict(e=np.array([1.0, 2.0])), lambda o, b: b.ttb.sptendiag(o.e, (3,) * b.N))
    reg(c, "teneye", "default", lambda b: dict(), lambda o, b: b.ttb.teneye(2, 2), shapes=CUBE)
    reg(c, "tenones", "default", lambda b: dict(shp=np.array(b.shape)), lambda o, b: b.ttb.tenones(o.shp))
    reg(c, "tenzeros", "default", lambda b: dict(shp=np.array(b.shape)), lambda o, b: b.ttb.tenzeros(o.shp))
    reg(c, "tenrand", "default", lambda b: dict(shp=np.array(b.shape)), lambda o, b: b.ttb.tenrand(o.shp))
    reg(c, "sptenrand", "nonzeros", lambda b: dict(shp=np.array(b.shape)), lambda o, b: b.ttb.sptenrand(o.shp, nonzeros=3))
    reg(c, "sptenrand", "density", lambda b: dict(shp=np.array(b.shape)), lambda o, b: b.ttb.sptenrand(o.shp, density=0.5))

    def roundtrip(b, obj):
        d = tempfile.mkdtemp(prefix="c05io")
        fn = os.path.join(d, "x.tns")
        try:
            b.ttb.export_data(obj, fn)
            return b.ttb.import_data(fn)
        finally:
            try:
                os.remove(fn)
            except OSError:
                pass
            os.rmdir(d)
    for nm, mk in (("tensor", lambda b: b.T()), ("sptensor", lambda b: b.S()), ("ktensor", lambda b: b.K()), ("matrix", lambda b: b.fm()[0])):
        reg(c, "export_data", nm, lambda b, mk=mk: dict(X=mk(b)), lambda o, b: roundtrip(b, o.X))
        reg(c, "import_data", nm, lambda b, mk=mk: dict(X=mk(b)), lambda o, b: roundtrip(b, o.X))
    skip(c, "ignore_warnings", "takes a boolean, returns None, touches only the warnings filter (no tensor operands)")


_toplevel_table()

# ---- pyttb_utils ------------------------------------------------------------------------------------------
def _utils_table():
    import pyttb.pyttb_utils as PU
    c = "utils"
    SH = [(2, 3, 4)]
    reg(c, "gather_wrap_dims", "rdims", lambda b: dict(r=np.array([0])), lambda o, b: PU.gather_wrap_dims(b.N, o.r))
    reg(c, "gather_wrap_dims", "rdims+cdims", lambda b: dict(r=np.array([0]), cd=np.arange(1, b.N)), lambda o, b: PU.gather_wrap_dims(b.N, o.r, o.cd))
    reg(c, "gather_wrap_dims", "cdims-only", lambda b: dict(cd=np.arange(1, b.N)), lambda o, b: PU.gather_wrap_dims(b.N, cdims=o.cd))
    reg(c, "gather_wrap_dims", "cyclic", lambda b: dict(r=np.array([1])), lambda o, b: PU.gather_wrap_dims(b.N, o.r, cdims_cyclic="fc"))
    reg(c, "get_index_variant", "array", lambda b: dict(i=np.array([0, 1])), lambda o: PU.get_index_variant(o.i), kind="scalar", shapes=SH)
    reg(c, "get_index_variant", "subscripts", lambda b: dict(i=b.subs()), lambda o: PU.get_index_variant(o.i), kind="scalar", shapes=SH)
    # pass-through accessors: documented to hand back (a view of) their argument after validation
    reg(c, "get_mttkrp_factors", "list", lambda b: dict(U=b.fm()), lambda o, b: PU.get_mttkrp_factors(o.U, 0, b.N), kind="nocopy")
    reg(c, "get_mttkrp_factors", "ktensor", lambda b: dict(U=b.K()), lambda o, b: PU.get_mttkrp_factors(o.U, 0, b.N), kind="nocopy")
    for nm in ("islogical", "isrow", "isvector"):
        reg(c, nm, "array", lambda b: dict(a=b.vec(0).reshape(1, -1)), lambda o, nm=nm: getattr(PU, nm)(o.a), kind="scalar", shapes=SH)
    reg(c, "np_to_python", "tuple-of-np-ints", lambda b: dict(a=np.array(b.shape)), lambda o: PU.np_to_python(tuple(o.a)), kind="scalar", shapes=SH)
    reg(c, "parse_one_d", "ndarray", lambda b: dict(a=np.array([0, 1])), lambda o: PU.parse_one_d(o.a), kind="nocopy", shapes=SH)
    reg(c, "parse_one_d", "list", lambda b: dict(a=[0, 1]), lambda o: PU.parse_one_d(o.a), shapes=SH)
    reg(c, "parse_one_d", "2d-row", lambda b: dict(a=np.array([[0, 1]])), lambda o: PU.parse_one_d(o.a), kind="nocopy", shapes=SH)
    reg(c, "parse_shape", "ndarray", lambda b: dict(a=np.array(b.shape)), lambda o: PU.parse_shape(o.a), kind="scalar")
    reg(c, "parse_shape", "list", lambda b: dict(a=list(b.shape)), lambda o: PU.parse_shape(o.a), kind="scalar")
    reg(c, "to_memory_order", "copy=False,matching", lambda b: dict(a=b.arr()), lambda o: PU.to_memory_order(o.a, "F"), kind="nocopy")
    reg(c, "to_memory_order", "copy=False,converting", lambda b: dict(a=np.ascontiguousarray(b.arr())), lambda o: PU.to_memory_order(o.a, "F"), kind="nocopy", shapes=NOSINGLE)
    reg(c, "to_memory_order", "copy=True,matching", lambda b: dict(a=b.arr()), lambda o: PU.to_memory_order(o.a, "F", copy=True))
    reg(c, "to_memory_order", "copy=True,converting", lambda b: dict(a=np.ascontiguousarray(b.arr())), lambda o: PU.to_memory_order(o.a, "F", copy=True))
    reg(c, "to_memory_order", "copy=True,coo", lambda b: dict(a=b.STM().double()), lambda o: PU.to_memory_order(o.a, "F", copy=True))
    reg(c, "tt_dimscheck", "dims-array", lambda b: dict(d=np.array([0, b.N - 1])), lambda o, b: PU.tt_dimscheck(b.N, 2, dims=o.d))
    reg(c, "tt_dimscheck", "all-dims-array", lambda b: dict(d=np.arange(b.N)), lambda o, b: PU.tt_dimscheck(b.N, b.N, dims=o.d))
    reg(c, "tt_dimscheck", "exclude-array", lambda b: dict(e=np.array([0])), lambda o, b: PU.tt_dimscheck(b.N, b.N, exclude_dims=o.e))
    reg(c, "tt_dimscheck", "none", lambda b: dict(), lambda o, b: PU.tt_dimscheck(b.N, b.N))
    reg(c, "tt_ind2sub", "non-negative", lambda b: dict(i=np.array([0, 1, b.n - 1])), lambda o, b: PU.tt_ind2sub(b.shape, o.i))
    reg(c, "tt_ind2sub", "negative", lambda b: dict(i=np.array([0, -1, -2])), lambda o, b: PU.tt_ind2sub(b.shape, o.i))
    reg(c, "tt_ind2sub", "empty", lambda b: dict(i=np.array([], dtype=int)), lambda o, b: PU.tt_ind2sub(b.shape, o.i), kind="scalar")
    reg(c, "tt_ind2sub", "C-order", lambda b: dict(i=np.array([0, 1, b.n - 1])), lambda o, b: PU.tt_ind2sub(b.shape, o.i, order="C"))
    reg(c, "tt_sub2ind", "default", lambda b: dict(s=b.subs()), lambda o, b: PU.tt_sub2ind(b.shape, o.s))
    reg(c, "tt_sub2ind", "C-order", lambda b: dict(s=b.subs()), lambda o, b: PU.tt_sub2ind(b.shape, o.s, order="C"))
    reg(c, "tt_sub2ind", "empty", lambda b: dict(s=np.empty((0, b.N), dtype=int)), lambda o, b: PU.tt_sub2ind(b.shape, o.s), kind="scalar")
    two = lambda b: dict(A=b.subs(), Bm=np.vstack([b.subs(1)[:2], b.subs()[:2]]))
    for nm in ("tt_intersect_rows", "tt_setdiff_rows", "tt_union_rows"):
        reg(c, nm, "default", two, lambda o, nm=nm: getattr(PU, nm)(o.A, o.Bm))
        reg(c, nm, "empty-second", lambda b: dict(A=b.subs(), Bm=np.empty((0, b.N), dtype=int)), lambda o, nm=nm: getattr(PU, nm)(o.A, o.Bm))
        reg(c, nm, "empty-first", lambda b: dict(A=np.empty((0, b.N), dtype=int), Bm=b.subs()), lambda o, nm=nm: getattr(PU, nm)(o.A, o.Bm))
    reg(c, "tt_ismember_rows", "default", two, lambda o: PU.tt_ismember_rows(o.Bm, o.A))
    reg(c, "tt_irenumber", "slices", lambda b: dict(t=b.S()), lambda o, b: PU.tt_irenumber(o.t, b.shape, (slice(None),) * b.N))
    reg(c, "tt_irenumber", "array-range", lambda b: dict(t=b.S(), r=np.arange(b.shape[0])), lambda o, b: PU.tt_irenumber(o.t, b.shape, (o.r,) + (slice(None),) * (b.N - 1)))
    reg(c, "tt_renumber", "slices", lambda b: dict(s=b.subs()), lambda o, b: PU.tt_renumber(o.s, b.shape, (slice(None),) * b.N))
    reg(c, "tt_renumber", "list-range", lambda b: dict(s=b.subs(), r=list(range(b.shape[0]))[::-1]), lambda o, b: PU.tt_renumber(o.s, b.shape, (o.r,) + (slice(None),) * (b.N - 1)))
    reg(c, "tt_renumber", "partial-slice", lambda b: dict(s=b.subs()), lambda o, b: PU.tt_renumber(o.s, b.shape, (slice(None),) * (b.N - 1) + (slice(1, None),)))
    reg(c, "tt_renumber", "empty-subs", lambda b: dict(s=np.empty((0, b.N), dtype=int), r=[0]), lambda o, b: PU.tt_renumber(o.s, b.shape, (o.r,) + (slice(None),) * (b.N - 1)), kind="scalar")
    reg(c, "tt_renumberdim", "array-range", lambda b: dict(i=b.subs()[:, 0].copy(), r=np.arange(b.shape[0])), lambda o, b: PU.tt_renumberdim(o.i, b.shape[0], o.r))
    reg(c, "tt_renumberdim", "slice", lambda b: dict(i=b.subs()[:, 0].copy()), lambda o, b: PU.tt_renumberdim(o.i, b.shape[0], slice(0, 2)))
    reg(c, "tt_sizecheck", "tuple", lambda b: dict(), lambda o, b: PU.tt_sizecheck(b.shape), kind="scalar")
    reg(c, "tt_sizecheck", "ndarray", lambda b: dict(a=np.array(b.shape)), lambda o: PU.tt_sizecheck(o.a), kind="scalar")
    reg(c, "tt_subscheck", "default", lambda b: dict(s=b.subs()), lambda o: PU.tt_subscheck(o.s), kind="scalar")
    reg(c, "tt_valscheck", "default", lambda b: dict(v=b.vals()), lambda o: PU.tt_valscheck(o.v), kind="scalar")
    reg(c, "tt_subsubsref", "array", lambda b: dict(a=b.vec(0)), lambda o: PU.tt_subsubsref(o.a, None), kind="nocopy")   # documented stub: returns obj
    reg(c, "tt_subsubsref", "size-1", lambda b: dict(a=np.array([3.0])), lambda o: PU.tt_subsubsref(o.a, None), kind="scalar", shapes=SH)


_utils_table()

# ---- seed-driven parameter classes (one fixed draw in quick, several seeds in thorough) ------------------
def _rnd(shape, seed, salt=0):
    import random
    return random.Random(seed * 1000003 + sum(int(s) * 31 ** i for i, s in enumerate(shape)) + 7919 * salt)


def rand_order(shape, seed):
    r = _rnd(shape, seed, 1)
    o = list(range(len(shape)))
    r.shuffle(o)
    return o


def keeps_f_layout(shape, order):
    """np.transpose(F-array, order) is still F-contiguous iff the non-singleton modes keep their relative order"""
    ns = [m for m in order if shape[m] != 1]
    return ns == sorted(ns)


def _random_table():
    ro = lambda b: np.array(rand_order(b.shape, b.seed))
    rdim = lambda b, salt=2: _rnd(b.shape, b.seed, salt).randrange(b.N)

    def rdims(b, salt=3):
        r = _rnd(b.shape, b.seed, salt)
        k = r.randrange(1, b.N) if b.N > 1 else 1
        return np.array(sorted(r.sample(range(b.N), k)))
    for cls, mk in (("tensor", "T"), ("sptensor", "S"), ("ktensor", "K"), ("ttensor", "TT")):
        reg(cls, "permute", "random-order", lambda b, mk=mk: dict(X=getattr(b, mk)(), order=ro(b)), lambda o: o.X.permute(o.order))
        reg(cls, "ttv", "random-dim", lambda b, mk=mk: dict(X=getattr(b, mk)(), v=b.vec(rdim(b))), lambda o, b: o.X.ttv(o.v, rdim(b)), shapes=NOSINGLE)
    for cls, mk in (("tensor", "T"), ("sptensor", "S"), ("ttensor", "TT")):
        reg(cls, "ttm", "random-dim", lambda b, mk=mk: dict(X=getattr(b, mk)(), M=b.mat(rdim(b, 4), 3)), lambda o, b: o.X.ttm(o.M, rdim(b, 4)))
    for cls, mk in (("tensor", "T"), ("sptensor", "S")):
        reg(cls, "collapse", "random-dims", lambda b, mk=mk: dict(X=getattr(b, mk)(), dims=rdims(b)), lambda o: o.X.collapse(o.dims))

        def key(b):
            r = _rnd(b.shape, b.seed, 5)
            out = []
            for s in b.shape:
                lo = r.randrange(s)
                out.append(slice(lo, r.randrange(lo + 1, s + 1)))
            return tuple(out)
        reg(cls, "__getitem__", "random-slices", lambda b, mk=mk: dict(X=getattr(b, mk)()), lambda o, b, key=key: o.X[key(b)])
    reg("tensor", "to_tenmat", "random-rdims", lambda b: dict(X=b.T(), r=rdims(b, 6)), lambda o: o.X.to_tenmat(o.r))
    reg("sptensor", "to_sptenmat", "random-rdims", lambda b: dict(X=b.S(), r=rdims(b, 6)), lambda o: o.X.to_sptenmat(o.r))
    reg("tensor", "scale", "random-dim", lambda b: dict(X=b.T(), f=b.vec(rdim(b, 7))), lambda o, b: o.X.scale(o.f, rdim(b, 7)))
    reg("sptensor", "scale", "random-dim", lambda b: dict(X=b.S(), f=b.vec(rdim(b, 7)), d=np.array([rdim(b, 7)])), lambda o: o.X.scale(o.f, o.d))


_random_table()

# ---- same object passed twice; empty operands -------------------------------------------------------------
def _degenerate_table():
    import operator as op
    for cls, mk in (("tensor", "T"), ("sptensor", "S"), ("ktensor", "K")):
        reg(cls, "__add__", "same-object-twice", X(mk), lambda o: o.X + o.X)
        reg(cls, "__sub__", "same-object-twice", X(mk), lambda o: o.X - o.X)
    reg("tensor", "__mul__", "same-object-twice", X("T"), lambda o: o.X * o.X)
    reg("sptensor", "__mul__", "same-object-twice", X("S"), lambda o: o.X * o.X)
    reg("tensor", "ttt", "same-object-twice", X("T"), lambda o: o.X.ttt(o.X))
    reg("tensor", "logical_and", "same-object-twice", X("T"), lambda o: o.X.logical_and(o.X))
    reg("sptensor", "logical_or", "same-object-twice", X("S"), lambda o: o.X.logical_or(o.X))
    reg("tenmat", "__add__", "same-object-twice", X("TM"), lambda o: o.X + o.X)
    empty = lambda b: b.ttb.sptensor(shape=b.shape)
    for nm, f in (("__add__", op.add), ("__sub__", op.sub), ("__mul__", op.mul)):
        reg("sptensor", nm, "empty-other", lambda b: dict(X=b.S(), Y=empty(b)), lambda o, f=f: f(o.X, o.Y))
        reg("sptensor", nm, "empty-receiver", lambda b: dict(X=empty(b), Y=b.S()), lambda o, f=f: f(o.X, o.Y))
    # (logical_and/or/xor with an empty sptensor raise ValueError in pyttb itself: not a C05 matter, not listed)
    reg("sptensor", "permute", "empty,reverse", lambda b: dict(X=empty(b), order=np.arange(b.N)[::-1].copy()), lambda o: o.X.permute(o.order), kind="scalar")
    reg("sptensor", "copy", "empty", lambda b: dict(X=empty(b)), lambda o: o.X.copy(), kind="scalar")
    reg("sptensor", "full", "empty", lambda b: dict(X=empty(b)), lambda o: o.X.full(), kind="scalar")
    reg("sptensor", "__pos__", "empty", lambda b: dict(X=empty(b)), lambda o: +o.X, kind="scalar")
    reg("sptensor", "ttv", "empty,single", lambda b: dict(X=empty(b), v=b.vec(0)), lambda o: o.X.ttv(o.v, 0), kind="scalar")
    reg("sptensor", "squeeze", "empty", lambda b: dict(X=empty(b)), lambda o: o.X.squeeze(), kind="scalar")
    reg("tensor", "to_sptensor", "all-zero", lambda b: dict(X=b.ttb.tenzeros(b.shape)), lambda o: o.X.to_sptensor())
    reg("sumtensor", "__init__", "copy=True,empty", lambda b: dict(), lambda o, b: b.ttb.sumtensor(), kind="scalar", shapes=CUBE)


_degenerate_table()


# ---- wave 3: documented sharing of the no-copy constructions (anything else shared fails the row) --------------
def same_pos(**m):
    """allow-predicate: a buffer of the result may share storage only with the buffer at the same position of the
    argument it was built from (result.<k> ... with <m[k]> ...)"""
    pairs = [("result" + ("" if k == "_" else "." + k), v) for k, v in m.items()]

    def ok(pr, po):
        return any(pr.startswith(rp) and po.startswith(op) and pr[len(rp):] == po[len(op):] for rp, op in pairs)
    return ok


def _allow_table():
    A = {("tensor", "__init__", "copy=False"): same_pos(data="d"), ("tensor", "__init__", "copy=False,C-order"): same_pos(data="d"),
         ("sptensor", "__init__", "copy=False"): same_pos(subs="s", vals="v"),
         ("ktensor", "__init__", "copy=False"): same_pos(weights="w", factor_matrices="f"),
         ("ttensor", "__init__", "copy=False"): same_pos(core="core", factor_matrices="f"),
         ("tenmat", "__init__", "copy=False"): same_pos(data="d"),
         ("sptenmat", "__init__", "copy=False"): same_pos(subs="s", vals="v"),
         ("sumtensor", "__init__", "copy=False"): same_pos(parts="p"),
         ("tensor", "to_tenmat", "copy=False"): same_pos(data="X.data"),
         ("tenmat", "to_tensor", "copy=False"): same_pos(data="X.data"),
         ("utils", "to_memory_order", "copy=False,matching"): same_pos(_="a"),
         ("utils", "to_memory_order", "copy=False,converting"): same_pos(_="a")}
    for (ns, name, pc), f in A.items():
        e = next(x for x in TABLE[(ns, name)] if x["pclass"] == pc)
        assert e["kind"] == "nocopy"
        e["allow"] = f


_allow_table()


# ---- wave 3: both sides of data-dependent switches (inputs on which an algorithm has nothing to do) -----------
def _switch_table():
    def symT(b, off=0):        # exactly symmetric in every mode (cube shapes only)
        a = b.arr(off)
        import itertools
        acc = np.zeros_like(a)
        for p in itertools.permutations(range(b.N)):
            acc = acc + np.transpose(a, p)
        return b.ttb.tensor(acc, copy=True)

    def sym01(b):              # symmetric in modes (0, 1) only
        a = b.arr()
        return b.ttb.tensor(a + np.swapaxes(a, 0, 1), copy=True)
    c = "tensor"
    reg(c, "symmetrize", "already-symmetric", lambda b: dict(X=symT(b)), lambda o: o.X.symmetrize(), shapes=CUBE + [(3, 3, 3), (2, 2)])
    reg(c, "symmetrize", "already-symmetric,constant", lambda b: dict(X=b.ttb.tenones(b.shape)), lambda o: o.X.symmetrize(), shapes=CUBE)
    reg(c, "symmetrize", "already-symmetric,grps", lambda b: dict(X=sym01(b), g=np.array([0, 1])), lambda o: o.X.symmetrize(o.g), shapes=CUBE + [(3, 3, 2)])
    reg(c, "symmetrize", "already-symmetric,version1", lambda b: dict(X=symT(b)), lambda o: o.X.symmetrize(version=1), shapes=CUBE)
    reg(c, "symmetrize", "second-use", lambda b: dict(X=b.T().symmetrize()), lambda o: o.X.symmetrize(), shapes=CUBE)
    reg(c, "issymmetric", "already-symmetric,details", lambda b: dict(X=symT(b)), lambda o: o.X.issymmetric(return_details=True), shapes=CUBE)
    reg("ktensor", "symmetrize", "already-symmetric", lambda b: dict(X=b.ttb.ktensor([np.array([[1.0, 2.0], [3.0, 4.0]]) for _ in range(b.N)], np.array([2.0, 3.0]))),
        lambda o: o.X.symmetrize(), shapes=CUBE)
    reg("ktensor", "symmetrize", "second-use", lambda b: dict(X=b.K().symmetrize()), lambda o: o.X.symmetrize(), shapes=CUBE)
    # nothing to do: all-ones mask / scale, singleton modes, full coverage
    reg(c, "mask", "all-ones", lambda b: dict(X=b.T(), W=b.ttb.tenones(b.shape)), lambda o: o.X.mask(o.W))
    reg(c, "scale", "ones", lambda b: dict(X=b.T(), f=np.ones(b.shape[0])), lambda o: o.X.scale(o.f, 0))
    reg(c, "collapse", "singleton-dim", lambda b: dict(X=b.T(), dims=np.array([1])), lambda o: o.X.collapse(o.dims), shapes=[(3, 1, 2), (2, 1)])
    reg(c, "ttv", "singleton-mode,one", lambda b: dict(X=b.T(), v=np.array([1.0])), lambda o: o.X.ttv(o.v, 1), shapes=[(3, 1, 2), (2, 1)])
    reg(c, "ttm", "singleton-mode,1x1-identity", lambda b: dict(X=b.T(), M=np.array([[1.0]])), lambda o: o.X.ttm(o.M, 1), shapes=[(3, 1, 2), (2, 1)])
    reg(c, "ttm", "all,identity-matrices", lambda b: dict(X=b.T(), M=[np.eye(s) for s in b.shape]), lambda o: o.X.ttm(o.M))
    reg(c, "to_sptensor", "all-nonzero", X("T"), lambda o: o.X.to_sptensor())
    reg(c, "__getitem__", "whole-range-slices-explicit", X("T"), lambda o, b: o.X[tuple(slice(0, s) for s in b.shape)])
    reg(c, "reshape", "drop-singleton", X("T"), lambda o, b: o.X.reshape(tuple(s for s in b.shape if s != 1)), shapes=[(3, 1, 2), (1, 3, 1)])
    reg(c, "reshape", "add-singleton", X("T"), lambda o, b: o.X.reshape(b.shape + (1,)))
    reg(c, "permute", "identity,list", lambda b: dict(X=b.T(), order=list(range(b.N))), lambda o: o.X.permute(o.order))
    reg(c, "permute", "identity,tuple", X("T"), lambda o, b: o.X.permute(tuple(range(b.N))))
    reg(c, "squeeze", "1-way", X("T"), lambda o: o.X.squeeze(), shapes=[(4,)])
    reg(c, "permute", "1-way", lambda b: dict(X=b.T(), order=np.array([0])), lambda o: o.X.permute(o.order), shapes=[(4,)])
    reg(c, "reshape", "1-way,same", X("T"), lambda o, b: o.X.reshape(b.shape), shapes=[(4,)])
    reg(c, "to_tenmat", "1-way", lambda b: dict(X=b.T(), r=np.array([0])), lambda o: o.X.to_tenmat(o.r), shapes=[(4,)])
    reg(c, "to_tenmat", "all-columns", lambda b: dict(X=b.T(), cd=np.arange(b.N)), lambda o: o.X.to_tenmat(cdims=o.cd))
    reg("tenmat", "to_tensor", "copy=True,all-rows", lambda b: dict(X=b.T().to_tenmat(np.arange(b.N))), lambda o: o.X.to_tensor())
    reg("tenmat", "to_tensor", "copy=True,all-columns", lambda b: dict(X=b.T().to_tenmat(cdims=np.arange(b.N))), lambda o: o.X.to_tensor())
    reg("tenmat", "ctranspose", "vectorised", lambda b: dict(X=b.T().to_tenmat(np.arange(b.N))), lambda o: o.X.ctranspose())
    c = "sptensor"
    fullS = lambda b: b.T().to_sptensor()           # every entry stored
    reg(c, "squash", "nothing-to-squash", lambda b: dict(X=fullS(b)), lambda o: o.X.squash())
    reg(c, "squash", "nothing-to-squash,inverse", lambda b: dict(X=fullS(b)), lambda o: o.X.squash(True))
    reg(c, "mask", "all-stored", lambda b: dict(X=b.S(), W=b.S().ones()), lambda o: o.X.mask(o.W))
    reg(c, "extract", "all-stored", lambda b: dict(X=b.S(), q=b.subs()), lambda o: o.X.extract(o.q))
    reg(c, "__getitem__", "all-stored-subscripts", lambda b: dict(X=b.S(), s=b.subs()), lambda o: o.X[o.s])
    reg(c, "__getitem__", "whole-range-slices-explicit", X("S"), lambda o, b: o.X[tuple(slice(0, s) for s in b.shape)])
    reg(c, "to_tensor", "every-entry-stored", lambda b: dict(X=fullS(b)), lambda o: o.X.to_tensor())
    reg(c, "collapse", "singleton-dim", lambda b: dict(X=b.S(), dims=np.array([1])), lambda o: o.X.collapse(o.dims), shapes=[(3, 1, 2)])
    reg(c, "ttv", "singleton-mode,one", lambda b: dict(X=b.S(), v=np.array([1.0])), lambda o: o.X.ttv(o.v, 1), shapes=[(3, 1, 2)])
    reg(c, "scale", "ones", lambda b: dict(X=b.S(), f=np.ones(b.shape[0]), d=np.array([0])), lambda o: o.X.scale(o.f, o.d))
    reg(c, "elemfun", "to-zero", X("S"), lambda o: o.X.elemfun(lambda v: v * 0))
    reg(c, "__init__", "copy=True,explicit-zeros", lambda b: dict(s=b.subs(), v=b.vals() * 0), lambda o, b: b.ttb.sptensor(o.s, o.v, b.shape, copy=True))
    reg(c, "__init__", "copy=True,one-entry", lambda b: dict(s=b.subs()[:1].copy(), v=b.vals()[:1].copy()), lambda o, b: b.ttb.sptensor(o.s, o.v, b.shape, copy=True))
    reg(c, "__init__", "copy=True,int32-subs", lambda b: dict(s=b.subs().astype(np.int32), v=b.vals()), lambda o, b: b.ttb.sptensor(o.s, o.v, b.shape, copy=True))
    reg(c, "permute", "1-way", lambda b: dict(X=b.S(), order=np.array([0])), lambda o: o.X.permute(o.order), shapes=[(4,)])
    reg(c, "reshape", "drop-singleton", X("S"), lambda o, b: o.X.reshape(tuple(s for s in b.shape if s != 1)), shapes=[(3, 1, 2)])
    reg(c, "__add__", "identical-pattern", lambda b: dict(X=b.S(), Y=b.S()), lambda o: o.X + o.Y)
    reg(c, "__sub__", "identical-pattern(cancels)", lambda b: dict(X=b.S(), Y=b.S()), lambda o: o.X - o.Y)
    reg(c, "__mul__", "identical-pattern", lambda b: dict(X=b.S(), Y=b.S()), lambda o: o.X * o.Y)
    reg(c, "__eq__", "identical-pattern", lambda b: dict(X=b.S(), Y=b.S()), lambda o: o.X == o.Y)
    reg(c, "logical_and", "identical-pattern", lambda b: dict(X=b.S(), Y=b.S()), lambda o: o.X.logical_and(o.Y))

    def setit(o, key, val):
        o.X[key] = val
        return None
    I = dict(kind="inplace", recv="X")
    blk = lambda b: b.ttb.sptensor(np.array([[0] * b.N, [0] * (b.N - 1) + [1]]), np.array([[5.0], [6.0]]), (1,) * (b.N - 1) + (2,))
    big = (3, 3, 4)
    reg(c, "__setitem__", "offset-block,sptensor,into-empty", lambda b: dict(X=b.ttb.sptensor(shape=b.shape), v=blk(b)),
        lambda o, b: setit(o, (slice(1, 2),) * (b.N - 1) + (slice(1, 3),), o.v), shapes=[big], **I)
    reg(c, "__setitem__", "offset-block,sptensor", lambda b: dict(X=b.S(), v=blk(b)),
        lambda o, b: setit(o, (slice(1, 2),) * (b.N - 1) + (slice(1, 3),), o.v), shapes=[big], **I)
    reg(c, "__setitem__", "origin-block,sptensor,into-empty", lambda b: dict(X=b.ttb.sptensor(shape=b.shape), v=blk(b)),
        lambda o, b: setit(o, (slice(0, 1),) * (b.N - 1) + (slice(0, 2),), o.v), shapes=[big], **I)
    reg(c, "__setitem__", "index-lists,sptensor", lambda b: dict(X=b.S(), v=blk(b), r=[2], r2=[3, 1]),
        lambda o, b: setit(o, (o.r,) * (b.N - 1) + (o.r2,), o.v), shapes=[big], **I)
    reg(c, "__setitem__", "slice-then-int,sptensor", lambda b: dict(X=b.S(), v=b.ttb.sptensor(np.array([[0, 1]]), np.array([[5.0]]), (1, 2))),
        lambda o, b: setit(o, (slice(1, 2), 1, slice(1, 3)), o.v), shapes=[big], **I)
    c = "ktensor"
    unit = lambda b: b.ttb.ktensor([np.eye(s)[:, :2] if s >= 2 else np.ones((1, 2)) for s in b.shape], np.array([3.0, 2.0]))   # normalised, sorted
    reg(c, "normalize", "already-normalised", lambda b: dict(X=unit(b)), lambda o: o.X.normalize(), shapes=NOSINGLE, **I)
    reg(c, "arrange", "already-arranged", lambda b: dict(X=unit(b)), lambda o: o.X.arrange(), shapes=NOSINGLE, **I)
    reg(c, "arrange", "identity-permutation", lambda b: dict(X=b.K(), p=np.array([0, 1])), lambda o: o.X.arrange(permutation=o.p), **I)
    reg(c, "extract", "all,in-order,list", lambda b: dict(X=b.K(), i=[0, 1]), lambda o: o.X.extract(o.i))
    reg(c, "extract", "single-component-receiver", lambda b: dict(X=b.K(R=1)), lambda o: o.X.extract(0))
    reg(c, "permute", "identity,list", lambda b: dict(X=b.K(), order=list(range(b.N))), lambda o: o.X.permute(o.order))
    reg(c, "redistribute", "unit-weights", lambda b: dict(X=b.ttb.ktensor(b.fm())), lambda o: o.X.redistribute(0), **I)
    reg(c, "tolist", "mode=last", XKl := X("K"), lambda o, b: o.X.tolist(b.N - 1))
    reg(c, "tovec", "single-component", lambda b: dict(X=b.K(R=1)), lambda o: o.X.tovec())
    reg(c, "full", "single-component", lambda b: dict(X=b.K(R=1)), lambda o: o.X.full())
    reg(c, "full", "1-way", X("K"), lambda o: o.X.full(), shapes=[(4,)])
    reg(c, "tolist", "1-way", X("K"), lambda o: o.X.tolist(), shapes=[(4,)])
    reg(c, "ttv", "2-way,single", lambda b: dict(X=b.K(), v=b.vec(0)), lambda o: o.X.ttv(o.v, 0), shapes=[(3, 4)])
    reg("ttensor", "full", "1x..x1-core", lambda b: dict(X=b.ttb.ttensor(b.ttb.tensor(np.array([2.0]).reshape((1,) * b.N)), [np.ones((s, 1)) for s in b.shape])), lambda o: o.X.full())
    reg("ttensor", "ttm", "identity-matrix", lambda b: dict(X=b.TT(), M=np.eye(b.shape[0])), lambda o: o.X.ttm(o.M, 0))
    reg("ttensor", "permute", "identity,list", lambda b: dict(X=b.TT(), order=list(range(b.N))), lambda o: o.X.permute(o.order))
    reg("ttb", "khatrirao", "single-matrix,list", lambda b: dict(U=[b.fm()[0]]), lambda o, b: b.ttb.khatrirao(*o.U))
    reg("ttb", "khatrirao", "with-ones-row", lambda b: dict(A=b.fm()[0], Bm=np.ones((1, 2))), lambda o, b: b.ttb.khatrirao(o.A, o.Bm))
    reg("ttb", "khatrirao", "ones-row-first", lambda b: dict(A=np.ones((1, 2)), Bm=b.fm()[0]), lambda o, b: b.ttb.khatrirao(o.A, o.Bm))


_switch_table()


# ---- wave 3: multi-step histories (the result of one public operation is the operand of the next) ------------
def _history_table():
    # ktensor whose state was produced by an in-place method (normalize(weight_factor) leaves C-ordered factors)
    preps = [("normalize(0)", lambda K: K.normalize(0)), ("normalize(all)", lambda K: K.normalize("all")),
             ("normalize()", lambda K: K.normalize()), ("arrange()", lambda K: K.arrange()),
             ("redistribute(last)", lambda K: K.redistribute(K.ndims - 1))]
    for pn, pf in preps:
        def mk(b, pf=pf, off=0):
            K = b.K(off=off)
            pf(K)
            return K
        XK = lambda b, mk=mk: dict(X=mk(b))
        nm = "after-" + pn
        c = "ktensor"
        reg(c, "tovec", nm, XK, lambda o: o.X.tovec(), layouts=False)
        reg(c, "tovec", nm + ",no-weights", XK, lambda o: o.X.tovec(False), layouts=False)
        reg(c, "tolist", nm, XK, lambda o: o.X.tolist(), layouts=False)
        reg(c, "tolist", nm + ",mode", XK, lambda o: o.X.tolist(0), layouts=False)
        reg(c, "full", nm, XK, lambda o: o.X.full(), layouts=False)
        reg(c, "extract", nm, XK, lambda o: o.X.extract(1), layouts=False)
        reg(c, "extract", nm + ",all", lambda b, mk=mk: dict(X=mk(b), i=np.array([0, 1])), lambda o: o.X.extract(o.i), layouts=False)
        reg(c, "copy", nm, XK, lambda o: o.X.copy(), layouts=False)
        reg(c, "double", nm, XK, lambda o: o.X.double(), layouts=False)
        reg(c, "permute", nm + ",identity", lambda b, mk=mk: dict(X=mk(b), order=np.arange(b.N)), lambda o: o.X.permute(o.order), layouts=False)
        reg(c, "permute", nm + ",reverse", lambda b, mk=mk: dict(X=mk(b), order=np.arange(b.N)[::-1].copy()), lambda o: o.X.permute(o.order), layouts=False)
        reg(c, "ttv", nm, lambda b, mk=mk: dict(X=mk(b), v=b.vec(0)), lambda o: o.X.ttv(o.v, 0), layouts=False)
        reg(c, "mttkrp", nm, lambda b, mk=mk: dict(X=mk(b), U=b.fm(R=3, off=1)), lambda o: o.X.mttkrp(o.U, 0), layouts=False)
        reg(c, "to_tenmat", nm, lambda b, mk=mk: dict(X=mk(b), r=np.array([0])), lambda o: o.X.to_tenmat(o.r), layouts=False)
        reg(c, "mask", nm, lambda b, mk=mk: dict(X=mk(b), W=b.W()), lambda o: o.X.mask(o.W), layouts=False)
        reg(c, "__add__", nm, lambda b, mk=mk: dict(X=mk(b), Y=mk(b, off=1)), lambda o: o.X + o.Y, layouts=False)
        reg(c, "__mul__", nm + ",one", XK, lambda o: o.X * 1, layouts=False)
        reg(c, "__pos__", nm, XK, lambda o: +o.X, layouts=False)
        reg(c, "nvecs", nm, XK, lambda o: o.X.nvecs(0, 1), layouts=False)
        reg(c, "score", nm, lambda b, mk=mk: dict(X=mk(b), Y=mk(b, off=1)), lambda o: o.X.score(o.Y), layouts=False)
        reg(c, "normalize", nm + ",again", XK, lambda o: o.X.normalize(), kind="inplace", recv="X", layouts=False)
        reg("tensor", "mttkrp", "ktensor," + nm, lambda b, mk=mk: dict(X=b.T(), U=mk(b)), lambda o: o.X.mttkrp(o.U, 0), layouts=False)
        reg("sptensor", "mttkrp", "ktensor," + nm, lambda b, mk=mk: dict(X=b.S(), U=mk(b)), lambda o: o.X.mttkrp(o.U, 0), layouts=False)
        reg("sumtensor", "__init__", "copy=True,part-" + nm, lambda b, mk=mk: dict(p=[b.T(), mk(b)]), lambda o, b: b.ttb.sumtensor(o.p, copy=True), layouts=False)
        reg("ttb", "cp_als", "init=ktensor," + nm, lambda b, mk=mk: dict(X=b.T(), init=mk(b)),
            lambda o, b: _M(b.ttb.cp_als, o.X, 2, init=o.init, maxiters=2, printitn=0), shapes=[(2, 3, 4)], layouts=False)
    # a user assigns his own array as a factor matrix (C-ordered / a view), then uses the ktensor
    def assigned(b, how):
        K = b.K()
        f = b.fm(off=2)[0]
        K.factor_matrices[0] = {"C": np.ascontiguousarray(f), "F": np.asfortranarray(f), "T-view": np.ascontiguousarray(f.T).T}[how]
        return K
    for how in ("C", "F", "T-view"):
        for opn, f in (("tovec", lambda o: o.X.tovec()), ("tolist", lambda o: o.X.tolist()), ("copy", lambda o: o.X.copy()), ("full", lambda o: o.X.full()),
                       ("extract", lambda o: o.X.extract(0)), ("double", lambda o: o.X.double()), ("__neg__", lambda o: -o.X)):
            reg("ktensor", opn, f"factor-assigned({how})", lambda b, how=how: dict(X=assigned(b, how)), f, layouts=False)
    # tensors / sptensors that are results of other operations; the first operation's operands stay tracked
    c = "tensor"
    ident = lambda b: np.arange(b.N)
    rev = lambda b: np.arange(b.N)[::-1].copy()

    def wr(Y, b, v=99.0):
        Y[(0,) * Y.ndims] = v
        return Y
    reg(c, "permute", "identity,then-write-result", lambda b: dict(X=b.T(), order=ident(b)), lambda o, b: wr(o.X.permute(o.order), b))
    reg(c, "reshape", "same-shape,then-write-result", X("T"), lambda o, b: wr(o.X.reshape(b.shape), b))
    reg(c, "squeeze", "no-singleton,then-write-result", X("T"), lambda o, b: wr(o.X.squeeze(), b), shapes=NOSINGLE)
    reg(c, "__getitem__", "full-slice,then-write-result", X("T"), lambda o, b: wr(o.X[(slice(None),) * b.N], b))
    reg(c, "__getitem__", "sub-slice,then-write-result", X("T"), lambda o, b: wr(o.X[(slice(0, 2),) + (slice(None),) * (b.N - 1)], b))
    reg(c, "__pos__", "then-write-result", X("T"), lambda o, b: wr(+o.X, b))
    reg(c, "copy", "then-write-result", X("T"), lambda o, b: wr(o.X.copy(), b))
    reg(c, "full", "then-write-result", X("T"), lambda o, b: wr(o.X.full(), b))
    reg(c, "permute", "there-and-back", lambda b: dict(X=b.T(), order=rev(b)), lambda o: o.X.permute(o.order).permute(o.order))
    reg(c, "permute", "of-permuted", lambda b: dict(A=b.T(), X=b.T().permute(rev(b)), order=rev(b)), lambda o: o.X.permute(o.order))
    reg(c, "reshape", "there-and-back", X("T"), lambda o, b: o.X.reshape((b.n,)).reshape(b.shape))
    reg(c, "to_tenmat", "then-to_tensor", lambda b: dict(X=b.T(), r=np.array([0])), lambda o: o.X.to_tenmat(o.r).to_tensor())
    reg(c, "to_tenmat", "of-permuted", lambda b: dict(X=b.T().permute(rev(b)), r=np.array([0])), lambda o: o.X.to_tenmat(o.r))
    reg(c, "to_sptensor", "then-full", X("T"), lambda o: o.X.to_sptensor().full())
    reg(c, "__eq__", "of-sum,scalar", lambda b: dict(A=b.T(), Bm=b.T(1), X=b.T() + b.T(1)), lambda o: o.X == 0)
    reg(c, "__add__", "chain", lambda b: dict(X=b.T(), Y=b.T(1), Z=b.T(2)), lambda o: (o.X + o.Y) + o.Z)
    reg(c, "ttv", "second-call-same-object", lambda b: dict(X=b.T(), v=b.vec(0)), lambda o: (o.X.ttv(o.v, 0), o.X.ttv(o.v, 0)))
    reg(c, "ttm", "of-ttm-result", lambda b: dict(X=b.T().ttm(b.mat(0), 0), M=b.mat(1)), lambda o: o.X.ttm(o.M, 1))
    reg(c, "mttkrp", "of-region-read", lambda b: dict(X=b.T()[(slice(None),) * b.N], U=b.fm()), lambda o: o.X.mttkrp(o.U, 0))
    reg(c, "__setitem__", "after-region-read", lambda b: dict(X=b.T(), Y=b.T()[(slice(0, 1),) + (slice(None),) * (b.N - 1)]),
        lambda o, b: o.X.__setitem__((0,) * b.N, 77.0), kind="inplace", recv="X")
    reg(c, "__setitem__", "after-identity-permute", lambda b: (lambda T: dict(X=T, Y=T.permute(np.arange(b.N))))(b.T()),
        lambda o, b: o.X.__setitem__((0,) * b.N, 77.0), kind="inplace", recv="X")
    reg(c, "__setitem__", "after-same-shape-reshape", lambda b: (lambda T: dict(X=T, Y=T.reshape(b.shape)))(b.T()),
        lambda o, b: o.X.__setitem__((slice(None),) * b.N, 5.0), kind="inplace", recv="X")
    reg(c, "__setitem__", "after-full-region-read", lambda b: (lambda T: dict(X=T, Y=T[(slice(None),) * b.N]))(b.T()),
        lambda o, b: o.X.__setitem__((slice(None),) * b.N, 5.0), kind="inplace", recv="X")
    reg(c, "__setitem__", "after-copy", lambda b: (lambda T: dict(X=T, Y=T.copy()))(b.T()),
        lambda o, b: o.X.__setitem__((0,) * b.N, 77.0), kind="inplace", recv="X")
    c = "sptensor"
    reg(c, "__getitem__", "sub-slice,then-write-result", X("S"), lambda o, b: wr(o.X[(slice(0, 2),) + (slice(None),) * (b.N - 1)], b))
    reg(c, "__getitem__", "full-slice,then-write-result", X("S"), lambda o, b: wr(o.X[(slice(None),) * b.N], b))
    reg(c, "permute", "identity,then-write-result", lambda b: dict(X=b.S(), order=ident(b)), lambda o, b: wr(o.X.permute(o.order), b))
    reg(c, "copy", "then-write-result", X("S"), lambda o, b: wr(o.X.copy(), b))
    reg(c, "__pos__", "then-write-result", X("S"), lambda o, b: wr(+o.X, b))
    reg(c, "reshape", "same-shape,then-write-result", X("S"), lambda o, b: wr(o.X.reshape(b.shape), b))
    reg(c, "squeeze", "no-singleton,then-write-result", X("S"), lambda o, b: wr(o.X.squeeze(), b), shapes=NOSINGLE)
    for pclass, mk in (("of-difference(S-S)", lambda b: b.S() - b.S()), ("of-sum", lambda b: b.S() + b.S(1)), ("of-product", lambda b: b.S() * b.S()),
                       ("of-region-read", lambda b: b.S()[(slice(None),) * b.N]), ("of-permuted-twice", lambda b: b.S().permute(np.arange(b.N)[::-1].copy()).permute(np.arange(b.N)[::-1].copy())),
                       ("of-elemfun-to-zero", lambda b: b.S().elemfun(lambda v: v * 0))):
        reg(c, "ttv", pclass, lambda b, mk=mk: dict(X=mk(b), v=b.vec(0)), lambda o: o.X.ttv(o.v, 0))
        reg(c, "full", pclass, lambda b, mk=mk: dict(X=mk(b)), lambda o: o.X.full())
        reg(c, "copy", pclass, lambda b, mk=mk: dict(X=mk(b)), lambda o: o.X.copy())
        reg(c, "permute", pclass + ",identity", lambda b, mk=mk: dict(X=mk(b), order=np.arange(b.N)), lambda o: o.X.permute(o.order))
        reg(c, "to_sptenmat", pclass, lambda b, mk=mk: dict(X=mk(b), r=np.array([0])), lambda o: o.X.to_sptenmat(o.r))
        reg(c, "__add__", pclass, lambda b, mk=mk: dict(X=mk(b), Y=b.S(1)), lambda o: o.X + o.Y)
        reg(c, "__eq__", pclass + ",scalar", lambda b, mk=mk: dict(X=mk(b)), lambda o: o.X == 0)
        reg(c, "mttkrp", pclass, lambda b, mk=mk: dict(X=mk(b), U=b.fm()), lambda o: o.X.mttkrp(o.U, 0))
        reg(c, "__setitem__", pclass + ",element", lambda b, mk=mk: dict(X=mk(b)), lambda o, b: o.X.__setitem__((0,) * b.N, 9.0), kind="inplace", recv="X")
    reg(c, "__setitem__", "after-region-read", lambda b: (lambda S: dict(X=S, Y=S[(slice(None),) * b.N]))(b.S()),
        lambda o, b: o.X.__setitem__(tuple(int(x) for x in b.subs_list()[0]), 77.0), kind="inplace", recv="X")
    reg(c, "__setitem__", "after-identity-permute", lambda b: (lambda S: dict(X=S, Y=S.permute(np.arange(b.N))))(b.S()),
        lambda o, b: o.X.__setitem__(tuple(int(x) for x in b.subs_list()[0]), 77.0), kind="inplace", recv="X")
    reg(c, "__setitem__", "after-find", lambda b: (lambda S: dict(X=S, Y=S.find()))(b.S()),
        lambda o, b: o.X.__setitem__(tuple(int(x) for x in b.subs_list()[0]), 77.0), kind="inplace", recv="X")
    reg(c, "to_sptenmat", "then-to_sptensor", lambda b: dict(X=b.S(), r=np.array([0])), lambda o: o.X.to_sptenmat(o.r).to_sptensor())
    reg(c, "ttv", "second-call-same-object", lambda b: dict(X=b.S(), v=b.vec(0)), lambda o: (o.X.ttv(o.v, 0), o.X.ttv(o.v, 0)))
    reg("tenmat", "to_tensor", "of-to_tenmat(copy=False)", lambda b: (lambda T: dict(T=T, X=T.to_tenmat(np.array([0]), copy=False)))(b.T()), lambda o: o.X.to_tensor())
    reg("tenmat", "copy", "of-to_tenmat(copy=False)", lambda b: (lambda T: dict(T=T, X=T.to_tenmat(np.array([0]), copy=False)))(b.T()), lambda o: o.X.copy())
    reg("tenmat", "__add__", "of-to_tenmat(copy=False),zero", lambda b: (lambda T: dict(T=T, X=T.to_tenmat(np.array([0]), copy=False)))(b.T()), lambda o: o.X + 0)
    reg("tenmat", "ctranspose", "twice", X("TM"), lambda o: o.X.ctranspose().ctranspose())
    # tensor built without copying from the caller's array (F-ordered: shared), then used
    nocopyT = lambda b: (lambda d: dict(d=d, X=b.ttb.tensor(d, copy=False)))(b.arr())
    for opn, f in (("copy", lambda o: o.X.copy()), ("full", lambda o: o.X.full()), ("double", lambda o: o.X.double()), ("__pos__", lambda o: +o.X),
                   ("squeeze", lambda o: o.X.squeeze()), ("to_sptensor", lambda o: o.X.to_sptensor()), ("exp", lambda o: o.X.exp()),
                   ("__mul__", lambda o: o.X * 1), ("find", lambda o: o.X.find())):
        reg("tensor", opn, "receiver-built-copy=False", nocopyT, f)
    reg("tensor", "permute", "identity,receiver-built-copy=False", nocopyT, lambda o, b: o.X.permute(np.arange(b.N)))
    reg("tensor", "reshape", "same-shape,receiver-built-copy=False", nocopyT, lambda o, b: o.X.reshape(b.shape))
    reg("tensor", "__getitem__", "full-slice,receiver-built-copy=False", nocopyT, lambda o, b: o.X[(slice(None),) * b.N])
    reg("tensor", "to_tenmat", "receiver-built-copy=False", nocopyT, lambda o: o.X.to_tenmat(np.array([0])))
    nocopyS = lambda b: (lambda s, v: dict(s=s, v=v, X=b.ttb.sptensor(s, v, b.shape, copy=False)))(b.subs(), b.vals())
    for opn, f in (("copy", lambda o: o.X.copy()), ("full", lambda o: o.X.full()), ("find", lambda o: o.X.find()), ("__pos__", lambda o: +o.X),
                   ("double", lambda o: o.X.double()), ("squeeze", lambda o: o.X.squeeze()), ("ones", lambda o: o.X.ones()), ("__mul__", lambda o: o.X * 1),
                   ("squash", lambda o: o.X.squash())):
        reg("sptensor", opn, "receiver-built-copy=False", nocopyS, f)
    reg("sptensor", "permute", "identity,receiver-built-copy=False", nocopyS, lambda o, b: o.X.permute(np.arange(b.N)))
    reg("sptensor", "reshape", "same-shape,receiver-built-copy=False", nocopyS, lambda o, b: o.X.reshape(b.shape))
    reg("sptensor", "__getitem__", "full-slice,receiver-built-copy=False", nocopyS, lambda o, b: o.X[(slice(None),) * b.N])
    reg("sptensor", "to_sptenmat", "receiver-built-copy=False", nocopyS, lambda o: o.X.to_sptenmat(np.array([0])))
    # algorithms: a model returned by one run is the initial guess of the next; an optimizer object is used twice
    kw = dict(maxiters=2, printitn=0)
    ALG1 = [(2, 3, 4)]
    reg("ttb", "cp_als", "init=result-of-previous-run", lambda b: dict(X=b.T(), init=b.ttb.cp_als(b.T(), 2, init=b.K(), **kw)[0]),
        lambda o, b: _M(b.ttb.cp_als, o.X, 2, init=o.init, **kw), shapes=ALG1, layouts=False)
    akw = dict(maxiters=2, printitn=0, printinneritn=0, maxinneriters=2)
    reg("ttb", "cp_apr", "mu,init=result-of-previous-run", lambda b: dict(X=b.S(), init=b.ttb.cp_apr(b.S(), 2, algorithm="mu", init=b.K(), **akw)[0]),
        lambda o, b: _M(b.ttb.cp_apr, o.X, 2, algorithm="mu", init=o.init, **akw), shapes=ALG1, layouts=False)
    reg("ttb", "tucker_als", "init=result-of-hosvd", lambda b: dict(X=b.T(), rank=np.array(b.ranks()), init=b.ttb.hosvd(b.T(), 1e-4, verbosity=0, ranks=b.ranks()).factor_matrices),
        lambda o, b: _M(b.ttb.tucker_als, o.X, o.rank, init=o.init, **kw), shapes=ALG1, layouts=False)
    reg("ttb", "cp_als", "second-run-same-operands", lambda b: dict(X=b.T(), init=b.K()),
        lambda o, b: (_M(b.ttb.cp_als, o.X, 2, init=o.init, **kw), _M(b.ttb.cp_als, o.X, 2, init=o.init, **kw)), shapes=ALG1, layouts=False)

    def lb():
        from pyttb.gcp.optimizers import LBFGSB
        return LBFGSB(maxiter=2, iprint=-1)

    def gcp2(b, X, init, opt):
        from pyttb.gcp.fg_setup import Objectives
        r1 = _M(b.ttb.gcp_opt, X, 2, Objectives.GAUSSIAN, opt, init=init, printitn=0)
        r2 = _M(b.ttb.gcp_opt, X, 2, Objectives.GAUSSIAN, opt, init=init, printitn=0)
        return (r1, r2)
    reg("ttb", "gcp_opt", "lbfgsb,optimizer-reused,init=list", lambda b: dict(X=b.T(), init=b.fm(), opt=lb()), lambda o, b: gcp2(b, o.X, o.init, o.opt), shapes=ALG1, layouts=False)


_history_table()


# ---- wave 3: option corners of the algorithm entry points; mixed layouts for the no-copy constructors ----------
def _corner_table():
    ALG1 = [(2, 3, 4)]
    c = "ttb"
    reg(c, "cp_als", "init=ktensor,maxiters=1,printitn=1", lambda b: dict(X=b.T(), init=b.K()), lambda o, b: _M(b.ttb.cp_als, o.X, 2, init=o.init, maxiters=1, printitn=1), shapes=ALG1)
    reg(c, "cp_als", "init=ktensor,stoptol=1(stops-at-once)", lambda b: dict(X=b.T(), init=b.K()), lambda o, b: _M(b.ttb.cp_als, o.X, 2, init=o.init, maxiters=5, stoptol=1.0, printitn=0), shapes=ALG1)
    reg(c, "tucker_als", "init=list,maxiters=1,printitn=1", lambda b: dict(X=b.T(), rank=np.array(b.ranks()), init=b.TT().factor_matrices),
        lambda o, b: _M(b.ttb.tucker_als, o.X, o.rank, init=o.init, maxiters=1, printitn=1), shapes=ALG1)
    reg(c, "cp_apr", "mu,init=ktensor,maxiters=1,printitn=1", lambda b: dict(X=b.S(), init=b.K()),
        lambda o, b: _M(b.ttb.cp_apr, o.X, 2, algorithm="mu", init=o.init, maxiters=1, printitn=1, printinneritn=1, maxinneriters=1), shapes=ALG1)
    reg(c, "cp_apr", "pdnr,init=ktensor,maxiters=1,printitn=1", lambda b: dict(X=b.S(), init=b.K()),
        lambda o, b: _M(b.ttb.cp_apr, o.X, 2, algorithm="pdnr", init=o.init, maxiters=1, printitn=1, printinneritn=1, maxinneriters=1), shapes=ALG1)
    reg(c, "hosvd", "tol,verbosity=1", lambda b: dict(X=b.T()), lambda o, b: b.ttb.hosvd(o.X, 1e-4, verbosity=1), shapes=ALG1)

    def gcp_s(b, X, init, **okw):
        from pyttb.gcp.optimizers import SGD
        from pyttb.gcp.fg_setup import Objectives
        return _M(b.ttb.gcp_opt, X, 2, Objectives.GAUSSIAN, SGD(printitn=0, **okw), init=init, printitn=0)
    reg(c, "gcp_opt", "sgd,max_fails=0,init=list", lambda b: dict(X=b.T(), init=b.fm()), lambda o, b: gcp_s(b, o.X, o.init, max_iters=2, epoch_iters=1, max_fails=0), shapes=ALG1)
    reg(c, "gcp_opt", "sgd,max_iters=1,epoch_iters=1,init=ktensor-copy", lambda b: dict(X=b.T(), init=b.fm()), lambda o, b: gcp_s(b, o.X, o.init, max_iters=1, epoch_iters=1), shapes=ALG1)
    # no-copy constructors: one factor C-ordered, the others F-ordered; F-contiguous window onto a C-ordered base
    def mixed(b):
        f = [np.asfortranarray(x) for x in b.fm()]
        f[0] = np.ascontiguousarray(f[0])
        return f
    reg("ktensor", "__init__", "copy=False,mixed-layouts", lambda b: dict(f=mixed(b), w=np.array([2.0, 3.0])), lambda o, b: b.ttb.ktensor(o.f, o.w, copy=False),
        kind="nocopy", allow=same_pos(weights="w", factor_matrices="f"), layouts=False, shapes=NOSINGLE)
    reg("ktensor", "__init__", "copy=False,all-F", lambda b: dict(f=[np.asfortranarray(x) for x in b.fm()], w=np.array([2.0, 3.0])), lambda o, b: b.ttb.ktensor(o.f, o.w, copy=False),
        kind="nocopy", allow=same_pos(weights="w", factor_matrices="f"), layouts=False)
    reg("tensor", "__init__", "copy=False,F-window-on-C-base", lambda b: dict(d=np.ascontiguousarray(np.transpose(b.arr(), range(b.N)[::-1])).T), lambda o, b: b.ttb.tensor(o.d, copy=False),
        kind="nocopy", allow=same_pos(data="d"), layouts=False)
    reg("tensor", "__init__", "copy=True,F-window-on-C-base", lambda b: dict(d=np.ascontiguousarray(np.transpose(b.arr(), range(b.N)[::-1])).T), lambda o, b: b.ttb.tensor(o.d, copy=True), layouts=False)
    reg("tensor", "__init__", "copy=False,sliced-window", lambda b: dict(d=np.asfortranarray(np.concatenate([b.arr(), b.arr(1)], axis=b.N - 1))[..., :b.shape[-1]]), lambda o, b: b.ttb.tensor(o.d, copy=False),
        kind="nocopy", allow=same_pos(data="d"), layouts=False)
    reg("tenmat", "__init__", "copy=False,C-order", lambda b: dict(d=np.ascontiguousarray(b.arr().reshape((b.shape[0], b.n // b.shape[0]), order="F")), r=np.array([0]), cd=np.arange(1, b.N)),
        lambda o, b: b.ttb.tenmat(o.d, o.r, o.cd, b.shape, copy=False), kind="nocopy", allow=same_pos(data="d"), layouts=False, shapes=NOSINGLE)


_corner_table()


# ---- wave 3: "the receiver already satisfies the post-condition" for idempotent-looking operations (remaining ones;
#      symmetrize / normalize / arrange / permute / reshape / squeeze / to_sptensor / full / squash / mask are in _switch_table)
def _idempotent_table():
    I = dict(kind="inplace", recv="X")

    def norm0(b):
        K = b.K()
        K.normalize(0)
        return K
    c = "ktensor"
    reg(c, "normalize", "weight_factor=int,second-time", lambda b: dict(X=norm0(b)), lambda o: o.X.normalize(0), **I)
    reg(c, "normalize", "weight_factor=all,second-time", lambda b: (lambda K: (K.normalize("all"), dict(X=K))[1])(b.K()), lambda o: o.X.normalize("all"), **I)
    reg(c, "fixsigns", "other,already-aligned", lambda b: dict(X=b.K(), Y=b.K()), lambda o: o.X.fixsigns(o.Y), **I)
    reg(c, "fixsigns", "second-time", lambda b: (lambda K: (K.fixsigns(), dict(X=K))[1])(b.ttb.ktensor([-f for f in b.fm()], np.array([2.0, 3.0]))), lambda o: o.X.fixsigns(), **I)
    reg(c, "arrange", "second-time", lambda b: (lambda K: (K.arrange(), dict(X=K))[1])(b.K()), lambda o: o.X.arrange(), **I)
    reg(c, "redistribute", "second-time", lambda b: (lambda K: (K.redistribute(0), dict(X=K))[1])(b.K()), lambda o: o.X.redistribute(0), **I)
    reg(c, "mask", "all-ones", lambda b: dict(X=b.K(), W=b.ttb.tenones(b.shape)), lambda o: o.X.mask(o.W))
    reg(c, "to_tensor", "single-component", lambda b: dict(X=b.K(R=1)), lambda o: o.X.to_tensor())
    reg(c, "double", "single-component", lambda b: dict(X=b.K(R=1)), lambda o: o.X.double())
    reg("ttensor", "to_tensor", "identity-factors", lambda b: dict(X=b.ttb.ttensor(b.T(), [np.eye(s) for s in b.shape])), lambda o: o.X.to_tensor())
    reg("ttensor", "double", "identity-factors", lambda b: dict(X=b.ttb.ttensor(b.T(), [np.eye(s) for s in b.shape])), lambda o: o.X.double())
    reg("ttensor", "reconstruct", "identity-factors", lambda b: dict(X=b.ttb.ttensor(b.T(), [np.eye(s) for s in b.shape])), lambda o: o.X.reconstruct())
    reg("sumtensor", "double", "single-dense-part", lambda b: dict(X=b.ttb.sumtensor([b.T()])), lambda o: o.X.double())
    reg("tensor", "double", "then-write-result", X("T"), lambda o: (lambda a: (a.__setitem__((0,) * a.ndim, 99.0), a)[1])(o.X.double()))
    reg("tensor", "tenfun", "unary,np.positive-handle", X("T"), lambda o: o.X.tenfun(lambda x: np.positive(x)))
    reg("tensor", "tenfun_unary", "np.asarray-handle", X("T"), lambda o: o.X.tenfun_unary(np.asarray), kind="nocopy")     # the handle returns its input
    reg("sptensor", "ones", "values-already-one", lambda b: dict(X=b.S().ones()), lambda o: o.X.ones())
    reg("sptensor", "elemfun", "np.positive", X("S"), lambda o: o.X.elemfun(np.positive))
    reg("sptensor", "to_sptenmat", "all-rows,then-back", lambda b: dict(X=b.S(), r=np.arange(b.N)), lambda o: o.X.to_sptenmat(o.r).to_sptensor())
    reg("tenmat", "ctranspose", "row-vector", lambda b: dict(X=b.T().to_tenmat(cdims=np.arange(b.N))), lambda o: o.X.ctranspose())
    # algorithms whose starting point already is the solution (stops at the first convergence test)
    ALG1 = [(2, 3, 4)]
    kw = dict(maxiters=3, printitn=0)
    reg("ttb", "cp_als", "init=ktensor,data=init.full()(already-solved)", lambda b: dict(X=b.K().full(), init=b.K()), lambda o, b: _M(b.ttb.cp_als, o.X, 2, init=o.init, **kw), shapes=ALG1)
    reg("ttb", "tucker_als", "init=list,data=model.full()(already-solved)", lambda b: (lambda H: dict(X=H.full(), rank=np.array(b.ranks()), init=[f.copy() for f in H.factor_matrices]))(b.ttb.hosvd(b.T(), 1e-4, verbosity=0, ranks=b.ranks())),
        lambda o, b: _M(b.ttb.tucker_als, o.X, o.rank, init=o.init, **kw), shapes=ALG1)

    def gcp_l(b, X, init):
        from pyttb.gcp.optimizers import LBFGSB
        from pyttb.gcp.fg_setup import Objectives
        return _M(b.ttb.gcp_opt, X, 2, Objectives.GAUSSIAN, LBFGSB(maxiter=3, iprint=-1), init=init, printitn=0)
    reg("ttb", "gcp_opt", "lbfgsb,init=list,data=init.full()(already-solved)", lambda b: dict(X=b.ttb.ktensor(b.fm()).full(), init=b.fm()), lambda o, b: gcp_l(b, o.X, o.init), shapes=ALG1)
    reg("ttb", "hosvd", "full-ranks", lambda b: dict(X=b.T(), ranks=list(b.shape)), lambda o, b: b.ttb.hosvd(o.X, 1e-4, verbosity=0, ranks=o.ranks), shapes=ALG1)


_idempotent_table()

# ---- wave 4 (tools/props/c05_w4.py): new keywords of the repaired tree, direct solver calls, second-use histories,
#      rows split along the open findings -----------------------------------------------------------------------------
from props import c05_w4 as W4          # noqa: E402
W4.register(globals())
# ---- wave 5 (tools/props/c05_w5.py): empty selections, code paths of the latest fix commits, module pyttb.cp_apr enumerated -----
from props import c05_w5 as W5          # noqa: E402
W5.register(globals())

#TABLE-SECTIONS


# ------------------------------------------------------------------------------------------------------------
# enumeration of the public surface (fail closed on anything unlisted)
# ------------------------------------------------------------------------------------------------------------
def public_surface():
    import types
    import pyttb as ttb
    import pyttb.pyttb_utils as PU
    out = []
    for cn in CLASSES:
        cls = getattr(ttb, cn)
        names = [n for n in dir(cls) if not n.startswith("_")]
        for d in DUNDERS:
            if any(d in k.__dict__ for k in cls.__mro__[:-1]):
                names.append(d)
        out += [(cn, n) for n in names]
        out.append((cn, "__init__"))
        if cn == "sumtensor":
            out.append((cn, "parts"))      # instance attribute (no slot): not visible in dir(class)
    for n in sorted(dir(ttb)):
        a = getattr(ttb, n)
        if n.startswith("_") or isinstance(a, types.ModuleType) or isinstance(a, type) or not callable(a):
            continue
        if n == "annotations":
            continue
        out.append(("ttb", n))
    for n in sorted(dir(PU)):
        a = getattr(PU, n)
        if n.startswith("_") or not callable(a) or getattr(a, "__module__", None) != PU.__name__ or isinstance(a, type):
            continue
        out.append(("utils", n))
    # wave 4: the optimizer classes of pyttb.gcp.optimizers (every public method; the constructor only stores numbers)
    import pyttb.gcp.optimizers as GO
    for cn in W4.OPT_CLASSES:
        for n in sorted(dir(getattr(GO, cn))):
            if not n.startswith("_") and callable(getattr(getattr(GO, cn), n)) and not isinstance(getattr(getattr(GO, cn), n), type):
                out.append(("gcpopt", f"{cn}.{n}"))
    # wave 5: every function DEFINED in module pyttb.cp_apr except the entry point itself (listed under "ttb")
    import importlib
    CAm = importlib.import_module("pyttb.cp_apr")
    for n in sorted(dir(CAm)):
        a = getattr(CAm, n)
        if not n.startswith("_") and callable(a) and not isinstance(a, type) and getattr(a, "__module__", None) == CAm.__name__ and n != "cp_apr":
            out.append(("cpapr", n))
    # gcp helper functions named by the property's anchors (an explicit list, not an enumeration: see CORRESPONDENCE_ONLY)
    for (ns, name) in TABLE:
        if ns == "helpers":
            modn, fn = name.rsplit(".", 1)
            try:
                if callable(getattr(importlib.import_module("pyttb." + modn), fn)):
                    out.append((ns, name))
            except Exception:
                pass
    return out


def _has_operand_array(e, shp, sd):
    import contextlib
    import io
    try:
        with contextlib.redirect_stdout(io.StringIO()):      # (second-use rows run the first use inside build)
            ops = e["build"](B(shp, sd))
        return any(a.size > 0 for _p, a in U.arrays_of(np, list(ops.items())))
    except Exception:
        return False


def gen_cases(rng, tier):
    big = tier == "thorough"
    cases = []
    surface = public_surface()
    for ns, name in surface:
        ents = TABLE.get((ns, name))
        if not ents:
            cases.append(Case("unlisted", {"ns": ns, "name": name}, False))
            continue
        for e in ents:
            if e["kind"] == "skip":
                continue
            shapes = list(e["shapes"] or SHAPES)
            if not big and e["shapes"] is None and (e["pclass"].startswith("after-") or ",after-" in e["pclass"] or e["pclass"].startswith("of-")
                                                    or "factor-assigned" in e["pclass"]):
                shapes = shapes[:1]        # quick tier: the history rows on one shape (all shapes in thorough)
            if big and e["tshapes"]:
                shapes += SHAPES_THOROUGH
            seeds = [0] + ([rng.randrange(1, 100000) for _ in range(4)] if big else [])
            for shp in shapes:
                for sd in seeds:
                    nt = e["kind"] in ("pure", "inplace", "nocopy") and _has_operand_array(e, shp, sd)
                    cases.append(Case(f"{ns}.{name}", {"pclass": e["pclass"], "shape": list(shp), "seed": sd, "kind": e["kind"]}, nt))
                    # the same row with every caller-chosen array in another memory layout (C / F / non-contiguous view)
                    if nt and sd == 0 and e["layouts"] and (big or (shp in LAYOUT_SHAPES if e["shapes"] is None else shp == shapes[0])):
                        for lay in U.LAYOUTS + U.LAYOUTS_W4:
                            cases.append(Case(f"{ns}.{name}", {"pclass": e["pclass"], "shape": list(shp), "seed": sd, "kind": e["kind"],
                                                               "layout": lay}, True))
    # tie of the hand transliteration in Model/C05View.v to the current source: sharing skeleton of every modelled function
    for key in SK.FUNCTIONS:
        cases.append(Case("model-tie", {"fn": SK.keyname(key)}, False))
    # table entries whose name no longer exists are reported too (stale table = the surface changed)
    have = set(surface)
    for key in TABLE:
        if key not in have:
            cases.append(Case("stale", {"ns": key[0], "name": key[1]}, False))
    return cases


def find_entry(c):
    ns, name = c.op.split(".", 1)
    for e in TABLE.get((ns, name), []):
        if e["pclass"] == c.args["pclass"]:
            return e
    return None


def _invoke(f, ops, b):
    nreq = f.__code__.co_argcount - len(f.__defaults__ or ())
    return f(ops, b) if nreq == 2 else f(ops)


def run_impl(c):
    import logging
    import warnings
    warnings.filterwarnings("ignore")
    logging.disable(logging.CRITICAL)
    if c.op in ("unlisted", "stale"):
        return {"unlisted": True}
    if c.op == "model-tie":
        key = next(k for k in SK.FUNCTIONS if SK.keyname(k) == c.args["fn"])
        try:
            cur = SK.current(key)
        except Exception as ex:
            return {"exc": type(ex).__name__, "msg": str(ex)[:300]}
        exp = SK.EXPECTED.get(c.args["fn"])
        return {"tie": cur == exp, "skeleton": cur, "expected": exp,
                "note": "sharing-relevant steps (copies, re-layouts, reshapes, constructor copy flags, returns) of a function "
                        "transliterated in Model/C05View.v differ from the ones the model was written from: revisit the model"}
    e = find_entry(c)
    if e is None:
        return {"exc": "NoEntry"}
    b = B(c.args["shape"], c.args.get("seed", 0))
    np.random.seed(12345)
    import contextlib
    import io
    layout = c.args.get("layout")

    def build():
        ops = AD(e["build"](b))
        if layout:
            for k in list(ops):
                ops[k] = U.relayout(np, ops[k], layout)
        if e.get("only") is not None:
            ops.hide([k for k in ops if k not in e["only"] and k != e["recv"]])
        if e.get("but") is not None:
            ops.hide(e["but"])
        if layout == "readonly":
            for k in list(ops):
                if k != e["recv"]:
                    U.freeze(np, ops[k], k)
        return ops
    try:
        with contextlib.redirect_stdout(io.StringIO()):
            o = U.measure(np, build, lambda ops: _invoke(e["call"], ops, b), receiver=e["recv"])
    except Exception as ex:
        import traceback
        if layout == "readonly" and "read-only" in str(ex) and e.get("aspects") is not None and "changed" not in e["aspects"]:
            return {"skip": "a write into a read-only operand is evidence for the 'changed' aspect, judged by this row's sibling"}
        return {"exc": type(ex).__name__, "msg": str(ex)[:300], "tb": traceback.format_exc()[-600:], "layout": layout}
    if e.get("aspects") is not None:        # this row judges only some aspects (the others are judged by its sibling rows)
        if "changed" not in e["aspects"]:
            o["changed"], o["before"], o["after"] = [], {}, {}
        if "shared" not in e["aspects"]:
            o["shared"], o["vis_result"], o["vis_operand"] = [], [], []
    if e.get("chg") is not None:
        o["changed"] = [p_ for p_ in o["changed"] if e["chg"](p_)]
    o["kind"] = e["kind"]
    o["recv"] = e["recv"]
    if (c.op, ) and c.op in MODELLED:
        try:      # operand descriptors for the view model: (shape, element strides) of every operand array, small int operands
            ops3 = build()
            o["desc"] = {p_: [list(a.shape), [int(st // a.itemsize) for st in a.strides]]
                         for p_, a in U.arrays_of(np, list(ops3.items())) if a.itemsize and all(st % a.itemsize == 0 for st in a.strides)}
            o["ivals"] = {k: [int(x) for x in np.asarray(v).ravel()] for k, v in ops3.items()
                          if isinstance(v, (list, np.ndarray)) and np.asarray(v).dtype.kind in "iu" and np.asarray(v).size <= 8}
            Xk = ops3.get("X")
            if type(Xk).__name__ == "ktensor":
                o["unitw"] = bool(np.array_equal(Xk.weights, np.ones(Xk.weights.shape)))
            if type(Xk).__name__ == "tenmat":
                o["tm"] = {"r": [int(x) for x in Xk.rindices], "c": [int(x) for x in Xk.cindices], "tshape": [int(x) for x in Xk.tshape]}
        except Exception:
            pass
    # no-copy rows: sharing beyond what the documentation of the construction permits
    o["shared_extra"] = [pr_po for pr_po in o["shared"] if e["allow"] is not None and not e["allow"](pr_po[0], pr_po[1])]
    return o


def _under(path, name):
    return path == name or path.startswith(name + ".") or path.startswith(name + "[") or path.startswith(name + "#")


def bits(o):
    """(unchanged, disjoint, vis_result, vis_operand) of an observation; receiver paths excluded for in-place ops"""
    recv = o.get("recv")
    changed = [p for p in o["changed"] if not (recv and _under(p, recv))]
    return (not changed, not o["shared"], bool(o["vis_result"]), bool(o["vis_operand"]), not o.get("shared_extra"))


KIND_COQ = {"pure": "KPure", "scalar": "KPure", "property": "KPure", "inplace": "KInplace", "nocopy": "KNoCopy", "attr": "KNoCopy"}


def coq_check(c, o):
    if "skip" in o:
        return None
    if c.op in ("unlisted", "stale") or "exc" in o:
        return "false"
    if c.op == "model-tie":
        # decided in Coq (audit A6): the current and the recorded skeleton, step by step, as CRC32 codes of the step texts
        import zlib
        if not isinstance(o.get("skeleton"), list) or not isinstance(o.get("expected"), list):
            return "false"
        zl = lambda steps: "[" + "; ".join(f"{zlib.crc32(st.encode())}%Z" for st in steps) + "]"
        return (f"(let cur := {zl(o['skeleton'])} in let rec := {zl(o['expected'])} in "
                f"(length cur =? length rec) && forallb (fun p => Z.eqb (fst p) (snd p)) (combine cur rec))")
    u, d, vr, vo, ex = bits(o)
    g = lambda x: "true" if x else "false"
    row = f"row_check (mkRow {KIND_COQ[o['kind']]} {g(u)} {g(d)} {g(vr)} {g(vo)} {g(ex)})"
    mv = model_verdicts(c, o)
    for expr, measured in mv:
        row += f" && Bool.eqb ({expr}) {g(measured)}"
    return row


def oracle(c, o):
    """independent restatement on the raw observation (paths and digests), without the Coq table"""
    if c.op == "unlisted":
        return None          # not a property violation by itself: the table is incomplete (fail closed)
    if c.op in ("stale", "model-tie"):
        return None
    if "exc" in o:
        if o.get("layout") == "readonly" and "read-only" in str(o.get("msg", "")):
            return ("the operation writes into an operand: with every operand array made read-only (setflags(write=False)) "
                    "it raises " + o["exc"] + ": " + str(o.get("msg"))[:120])
        return None
    recv = o.get("recv")
    msgs = []
    for p in o["changed"]:
        if recv and _under(p, recv):
            continue
        msgs.append(f"operand modified: {p} {o['before'].get(p)} -> {o['after'].get(p)}")
    if o["kind"] not in ("nocopy", "attr"):
        for pr, po in o["shared"]:
            msgs.append(f"result aliases operand: {pr} shares storage with {po}")
        for p in o["vis_result"]:
            msgs.append(f"in-place write through the result is visible in operand {p}")
        for p in o["vis_operand"]:
            msgs.append(f"in-place write through an operand is visible in {p}")
    for pr, po in o.get("shared_extra", []):
        msgs.append(f"no-copy construction shares more than documented: {pr} shares storage with {po}")
    return "; ".join(msgs[:6]) if msgs else None



# ------------------------------------------------------------------------------------------------------------
# wave 3: may-alias verdicts of the Coq view model (Model/C05View.v: transliterated return paths) vs. the measurement
# ------------------------------------------------------------------------------------------------------------
MODELLED = {"tensor.copy", "tensor.permute", "tensor.reshape", "tensor.squeeze", "tensor.__getitem__", "tensor.__init__",
            "tensor.to_tenmat", "tenmat.__getitem__", "sptensor.find", "ktensor.copy", "ktensor.__init__", "ktensor.extract",
            "ktensor.tolist", "ttb.khatrirao", "sptensor.copy", "sptensor.__init__", "tenmat.copy", "tenmat.__init__",
            # wave 4 (Model/C05View2.v)
            "tenmat.to_tensor", "tenmat.ctranspose", "tenmat.double", "ttensor.__init__", "ttensor.copy", "sptenmat.__init__", "sptenmat.copy"}


def _gl(xs):
    return "[" + "; ".join(str(int(x)) for x in xs) + "]"


def _arr(desc, path, bid):
    shp, st = desc[path]
    if any(x < 0 for x in st):
        raise KeyError(path)
    return f"(mkArr {bid} 0 {_gl(shp)} {_gl(st)})"


def _pairs(o, rprefix=None, oprefix=None):
    """measured: some result array (under rprefix) shares storage with some operand array (under oprefix)"""
    return any(not pr.endswith("#") and not po.endswith("#") and (rprefix is None or pr.startswith(rprefix))
               and (oprefix is None or po.startswith(oprefix)) for pr, po in o["shared"])


def _zarr(desc, path, bid):
    shp, st = desc[path]
    return f"(mkZArr {bid} 0%Z {_gl(shp)} [" + "; ".join(f"({int(x)})%Z" for x in st) + "])"


def _neg(desc, paths):
    return any(p_ in desc and any(x < 0 for x in desc[p_][1]) for p_ in paths)


def model_verdicts_z(c, o):
    """wave 5: the constructors on NEGATIVE-stride arguments, over the signed view model (Model/C05ViewZ.v)"""
    d, pc = o["desc"], c.args["pclass"]
    shape = list(c.args["shape"])
    cpy = "false" if pc.startswith("copy=False") else "true"
    if c.op == "tensor.__init__" and pc.startswith("copy=") and _neg(d, ["d"]):
        D = _zarr(d, "d", 0)
        t = shape if pc == "copy=True,shape" else d["d"][0]
        return [(f"zaliases [{D}] [snd (z_tensor_init (hz0 1) {D} {_gl(t)} {cpy})]", _pairs(o, "result", "d"))]
    if c.op == "tenmat.__init__" and pc.startswith("copy=") and _neg(d, ["d"]):
        D = _zarr(d, "d", 0)
        return [(f"zaliases [{D}] [snd (z_tenmat_init (hz0 1) {D} {cpy})]", _pairs(o, "result.data", "d"))]
    if c.op == "sptensor.__init__" and pc.startswith("copy=") and _neg(d, ["s", "v"]) and "s" in d and "v" in d:
        S, Vv = _zarr(d, "s", 0), _zarr(d, "v", 1)
        return [(f"zaliases [{S}; {Vv}] (snd (z_sptensor_init (hz0 2) {S} {Vv} {cpy}))", _pairs(o, "result", None))]
    if c.op == "ktensor.__init__" and pc in ("copy=True", "copy=False") and "w" in d:
        fk = sorted(k for k in d if k.startswith("f["))
        if fk and _neg(d, fk + ["w"]):
            F = [_zarr(d, k, i + 1) for i, k in enumerate(fk)]
            FL, W, H = "[" + "; ".join(F) + "]", _zarr(d, "w", 0), f"(hz0 {len(fk) + 1})"
            if cpy == "true":
                return [(f"zaliases ({W} :: {FL}) (snd (z_ktensor_init {H} {FL} {W} true))", _pairs(o, "result", None))]
            return [(f"zaliases {FL} (tl (snd (z_ktensor_init {H} {FL} {W} false)))", _pairs(o, "result.factor_matrices", "f")),
                    (f"zaliases [{W}] [hd {W} (snd (z_ktensor_init {H} {FL} {W} false))]", _pairs(o, "result.weights", "w"))]
    if c.op == "ttb.khatrirao" and pc.startswith("single-matrix"):
        key = "A" if "A" in d else "U[0]"
        if _neg(d, [key]):
            A = _zarr(d, key, 0)
            return [(f"zaliases [{A}] [snd (z_khatrirao_single (hz0 1) {A})]", _pairs(o, "result", None))]
    return []


def model_verdicts(c, o):
    """[(Gallina bool expression over the view model, measured bool)] for the rows whose return path is transliterated"""
    if c.op not in MODELLED or "desc" not in o:
        return []
    try:
        mz = model_verdicts_z(c, o)
    except (KeyError, TypeError):
        mz = []
    if mz:
        return mz
    d, iv, pc = o["desc"], o.get("ivals", {}), c.args["pclass"]
    shape = list(c.args["shape"])
    N, n = len(shape), math.prod(shape)
    try:
        if c.op.startswith("tensor.") and c.op != "tensor.__init__":
            if "X.data" not in d or o["kind"] == "scalar":
                return []
            Xshape = d["X.data"][0]
            X, H = _arr(d, "X.data", 0), "(h0 1)"
            one = lambda prog: [(f"aliases [{X}] [snd ({prog})]", _pairs(o, "result", "X.data"))]
            if c.op == "tensor.copy":
                return one(f"tensor_copy {H} {X}")
            if c.op == "tensor.permute":
                if "there-and-back" in pc:
                    return []
                p = iv.get("order") if "order" in iv else (list(range(len(Xshape))) if pc.startswith("identity") else None)
                return one(f"tensor_permute {H} {X} {_gl(p)}") if p is not None else []
            if c.op == "tensor.reshape":
                if pc.startswith("same-shape") or pc.startswith("1-way"):
                    t = Xshape
                elif pc == "to-vector":
                    t = [n]
                elif pc == "to-matrix":
                    t = [shape[0], n // shape[0]]
                elif pc == "drop-singleton":
                    t = [x for x in shape if x != 1]
                elif pc == "add-singleton":
                    t = shape + [1]
                else:
                    return []
                return one(f"tensor_reshape {H} {X} {_gl(t)}")
            if c.op == "tensor.squeeze":
                return one(f"tensor_squeeze {H} {X}")
            if c.op == "tensor.__getitem__":
                sl = lambda lo, hi: f"KSlice ({lo}, {hi - lo}, 1)"
                if pc.startswith("full-slice") or pc.startswith("whole-range-slices"):
                    k = [sl(0, x) for x in Xshape]
                elif pc.startswith("sub-slice"):
                    k = [sl(0, min(2, Xshape[0]))] + [sl(0, x) for x in Xshape[1:]]
                elif pc.startswith("int+slices"):
                    k = ["KInt 0"] + [sl(0, x) for x in Xshape[1:]]
                elif pc.startswith("list-in-key"):
                    return one(f"tensor_getitem_fancy {H} {X} {_gl([2] + Xshape[1:])} []")
                else:
                    return []
                return one(f"tensor_getitem_basic {H} {X} [{'; '.join(k)}]")
            if c.op == "tensor.to_tenmat":
                if "cyclic" in pc or "r" not in iv and "cd" not in iv and pc not in ("receiver-built-copy=False",):
                    return []
                NX = len(Xshape)
                r = iv.get("r", [0] if pc == "receiver-built-copy=False" else [])
                cd = iv.get("cd", [m for m in range(NX) if m not in r])
                if "r" not in iv and "cd" in iv:
                    r = [m for m in range(NX) if m not in cd]
                dims = list(r) + list(cd)
                rp, cp = math.prod(Xshape[m] for m in r), math.prod(Xshape[m] for m in cd)
                cpy = "false" if pc.startswith("copy=False") else "true"
                return one(f"tensor_to_tenmat {H} {X} {_gl(dims)} {rp} {cp} {cpy}")
            return []
        if c.op == "tensor.__init__":
            if "d" not in d:
                return []
            D, H = _arr(d, "d", 0), "(h0 1)"
            t = shape if pc == "copy=True,shape" else d["d"][0]
            cpy = "false" if pc.startswith("copy=False") else "true"
            if not pc.startswith("copy="):
                return []
            return [(f"aliases [{D}] [snd (tensor_init {H} {D} {_gl(t)} {cpy})]", _pairs(o, "result", "d"))]
        if c.op == "tenmat.__getitem__":
            if "X.data" not in d or o["kind"] == "scalar":
                return []
            D, H = _arr(d, "X.data", 0), "(h0 1)"
            rows, cols = d["X.data"][0]
            if pc == "row":
                prog = f"tenmat_getitem_basic {H} {D} [KInt 0; KSlice (0, {cols}, 1)]"
            elif pc == "full-slice":
                prog = f"tenmat_getitem_basic {H} {D} [KSlice (0, {rows}, 1); KSlice (0, {cols}, 1)]"
            elif pc == "fancy":
                prog = f"tenmat_getitem_fancy {H} {D} {_gl([2, cols])} []"
            else:
                return []
            return [(f"aliases [{D}] [snd ({prog})]", _pairs(o, "result", "X.data"))]
        if c.op in ("sptensor.find", "sptensor.copy"):
            if "X.subs" not in d or "X.vals" not in d:
                return []
            S, Vv = _arr(d, "X.subs", 0), _arr(d, "X.vals", 1)
            return [(f"aliases [{S}; {Vv}] (snd ({c.op.replace('.', '_')} (h0 2) {S} {Vv}))", _pairs(o, "result", "X."))]
        if c.op == "sptensor.__init__":
            if "s" not in d or "v" not in d or not pc.startswith("copy="):
                return []
            S, Vv = _arr(d, "s", 0), _arr(d, "v", 1)
            cpy = "false" if pc.startswith("copy=False") else "true"
            return [(f"aliases [{S}; {Vv}] (snd (sptensor_init (h0 2) {S} {Vv} {cpy}))", _pairs(o, "result", None))]
        if c.op == "tenmat.copy":
            if "X.data" not in d:
                return []
            D = _arr(d, "X.data", 0)
            return [(f"aliases [{D}] [snd (tenmat_copy (h0 1) {D})]", _pairs(o, "result", "X.data"))]
        if c.op == "tenmat.__init__":
            if "d" not in d or not pc.startswith("copy="):
                return []
            D = _arr(d, "d", 0)
            cpy = "false" if pc.startswith("copy=False") else "true"
            return [(f"aliases [{D}] [snd (tenmat_init (h0 1) {D} {cpy})]", _pairs(o, "result.data", "d"))]
        if c.op.startswith("ktensor."):
            pre = "X." if c.op != "ktensor.__init__" else None
            if pre:
                fk = sorted(k for k in d if k.startswith("X.factor_matrices["))
                if "X.weights" not in d or not fk:
                    return []
                W = _arr(d, "X.weights", 0)
                F = [_arr(d, k, i + 1) for i, k in enumerate(fk)]
                H = f"(h0 {len(F) + 1})"
                FL = "[" + "; ".join(F) + "]"
                meas = _pairs(o, "result", "X.")
                if c.op == "ktensor.copy":
                    prog = f"ktensor_copy {H} {FL} {W}"
                elif c.op == "ktensor.extract":
                    if pc == "none":
                        prog = f"ktensor_copy {H} {FL} {W}"
                    else:
                        ncomp = len(iv["i"]) if "i" in iv else 1
                        prog = f"ktensor_extract {H} {FL} {W} {ncomp} []"
                elif c.op == "ktensor.tolist":
                    if "mode" in pc:
                        prog = f"ktensor_copy {H} {FL} {W}"
                    else:
                        prog = f"ktensor_tolist {H} {FL} {'true' if o.get('unitw') else 'false'}"
                else:
                    return []
                return [(f"aliases ({W} :: {FL}) (snd ({prog}))", meas)]
            # constructor
            fk = sorted(k for k in d if k.startswith("f["))
            if not fk:
                return []
            F = [_arr(d, k, i + 1) for i, k in enumerate(fk)]
            FL = "[" + "; ".join(F) + "]"
            H = f"(h0 {len(F) + 1})"
            if pc.startswith("copy=False") and "w" in d:
                W = _arr(d, "w", 0)
                return [(f"aliases {FL} (tl (snd (ktensor_init {H} {FL} {W} false)))", _pairs(o, "result.factor_matrices", "f")),
                        (f"aliases [{W}] [hd {W} (snd (ktensor_init {H} {FL} {W} false))]", _pairs(o, "result.weights", "w"))]
            if pc == "copy=True" and "w" in d:
                W = _arr(d, "w", 0)
                return [(f"aliases ({W} :: {FL}) (snd (ktensor_init {H} {FL} {W} true))", _pairs(o, "result", None))]
            return []
        if c.op in ("tenmat.to_tensor", "tenmat.ctranspose", "tenmat.double"):
            if "X.data" not in d:
                return []
            D = _arr(d, "X.data", 0)
            meas = _pairs(o, "result", "X.data")
            if c.op == "tenmat.ctranspose":
                if "twice" in pc:
                    return []
                return [(f"aliases [{D}] [snd (tenmat_ctranspose (h0 1) {D})]", meas)]
            if c.op == "tenmat.double":
                return [(f"aliases [{D}] [snd (tenmat_double (h0 1) {D})]", meas)]
            tm = o.get("tm")
            if not tm:
                return []
            order = tm["r"] + tm["c"]
            pshape = [tm["tshape"][m] for m in order]
            inv = sorted(range(len(order)), key=lambda i: order[i])
            multi = "true" if len(order) > 1 else "false"
            cpy = "false" if pc.startswith("copy=False") else "true"
            return [(f"aliases [{D}] [snd (tenmat_to_tensor (h0 1) {D} {_gl(pshape)} {_gl(inv)} {_gl(tm['tshape'])} {multi} {cpy})]", meas)]
        if c.op in ("ttensor.__init__", "ttensor.copy"):
            pre = "X." if c.op == "ttensor.copy" else ""
            ck = pre + "core.data"
            fk = sorted(k for k in d if k.startswith(pre + ("factor_matrices[" if pre else "f[")))
            if ck not in d or not fk:
                return []
            C = _arr(d, ck, 0)
            F = [_arr(d, k, i + 1) for i, k in enumerate(fk)]
            FL = "[" + "; ".join(F) + "]"
            H = f"(h0 {len(F) + 1})"
            if c.op == "ttensor.copy":
                return [(f"aliases ({C} :: {FL}) (snd (ttensor_copy {H} {C} {FL}))", _pairs(o, "result", "X."))]
            if pc == "copy=True":
                return [(f"aliases ({C} :: {FL}) (snd (ttensor_init {H} {C} {FL} true))", _pairs(o, "result", None))]
            if pc == "copy=False":
                return [(f"aliases [{C}] [hd {C} (snd (ttensor_init {H} {C} {FL} false))]", _pairs(o, "result.core", "core")),
                        (f"aliases {FL} (tl (snd (ttensor_init {H} {C} {FL} false)))", _pairs(o, "result.factor_matrices", "f"))]
            return []
        if c.op in ("sptenmat.__init__", "sptenmat.copy"):
            ks, kv = ("X.subs", "X.vals") if c.op == "sptenmat.copy" else ("s", "v")
            if ks not in d or kv not in d:
                return []
            S, Vv = _arr(d, ks, 0), _arr(d, kv, 1)
            if c.op == "sptenmat.copy":
                return [(f"aliases [{S}; {Vv}] (snd (sptenmat_copy (h0 2) {S} {Vv}))", _pairs(o, "result", "X."))]
            if not pc.startswith("copy="):
                return []
            cpy = "false" if pc.startswith("copy=False") else "true"
            return [(f"aliases [{S}; {Vv}] (snd (sptenmat_init (h0 2) {S} {Vv} {cpy}))", _pairs(o, "result", None))]
        if c.op == "ttb.khatrirao":
            if not pc.startswith("single-matrix"):
                return []
            key = "A" if "A" in d else "U[0]"
            A = _arr(d, key, 0)
            return [(f"aliases [{A}] [snd (khatrirao_single (h0 1) {A})]", _pairs(o, "result", None))]
    except (KeyError, TypeError):
        return []
    return []

TRIGGERS = {}
WITNESSES = {}

# ------------------------------------------------------------------------------------------------------------
# known findings: trigger = exactly (operation, parameter class); witness = minimal replay on pyttb
# ------------------------------------------------------------------------------------------------------------
def _trig(*pairs):
    allowed = set(pairs)
    return lambda c: (c.op, c.args.get("pclass")) in allowed


# open (known) findings only. Repaired in /repo and therefore without trigger/witness (a regression is reported):
# A-18 (2c488d8), A-19 (05ae91c), A-20 (c5cca04), A-21 (eaab1d3), A-22 (2271d4e), A-23 (1faa4aa), A-25 (e8f8528),
# C05-N01 (9da7cbd), N02 (5de610a), N03 (a809e3d), N04 (d1f4c19), N05 (6294fd3), N06 (d564eea), N07 (a86915b), N09 (03905f9).
# wave 4: the rows of every open finding are split (tools/props/c05_w4.py) into the part that shows exactly the finding — operand
# buffer set and aspect ("changed" / "shared") — and sibling rows for everything else about the same call, which carry no trigger.
FINDING_CLASSES = W4.FINDING_CLASSES
TRIGGERS = {"c05_" + fid.replace("-", "_").lower(): _trig(*pairs) for fid, pairs in FINDING_CLASSES.items()}


def _witness(fid):
    """replay every (op, parameter class) of the finding on shape-default operands; describe what still fails"""
    def run():
        import pyttb  # noqa: F401  (vcheck.import_pyttb() has put PYTTB_SRC first on sys.path)
        bad = []
        for op, pclass in FINDING_CLASSES[fid]:
            ns, name = op.split(".", 1)
            e = next(x for x in TABLE[(ns, name)] if x["pclass"] == pclass)
            shp = (e["shapes"] or SHAPES)[0]
            c = Case(op, {"pclass": pclass, "shape": list(shp), "seed": 0, "kind": e["kind"]})
            o = run_impl(c)
            if "exc" in o:
                bad.append(f"{op}[{pclass}] raised {o['exc']}")
                continue
            why = oracle(c, o)
            if why:
                bad.append(f"{op}[{pclass}] shape {tuple(shp)}: {why[:160]}")
        return "; ".join(bad) if bad else None
    return run


WITNESSES = {fid: _witness(fid) for fid in FINDING_CLASSES}

#FINDINGS-SECTION
