(* Proofs/C04SpMatImpl.v — C04, wave 4: the transliteration of sptenmat.__setitem__ (Model/C04SpMatImpl.v: in-place overwrite of
   stored positions, `pending` table, append, lexsort, zero purge) refines the abstract 2-way array:
   for every well-formed sptenmat state (any stored order), every key and right-hand side the code accepts,
   the result denotes  spec_set  (every addressed position holds the LAST value addressed to it, zero included; all others
   unchanged), is well-formed again (in range, no duplicate subscript — C04-N14 —, no stored zero — C04-N08 —) and keeps its shape. *)
From Coq Require Import List Arith ZArith Lia Bool Permutation.
From PV Require Import Base.Index Np.Array Model.Sparse Model.C04Model Model.C04Mat Model.C04SpMatImpl
  Proofs.C04Dense Proofs.C04Sparse Proofs.C04RegionGet.
Import ListNotations.

Section P.
Context {V : Type} (v0 : V) (isz : V -> bool).
Hypothesis isz_spec : forall v, isz v = true <-> v = v0.

Notation keys := (map (@fst idx V)).

Lemma upd_all_keys p v (es : list (idx * V)) : keys (upd_all p v es) = keys es.
Proof. unfold upd_all. rewrite map_map. apply map_ext. intros e. destruct (idx_eqb p (fst e)); reflexivity. Qed.

Lemma last_match_upd_same p v (es : list (idx * V)) : forall d,
  last_match p (upd_all p v es) d = if memb p (keys es) then v else d.
Proof.
  induction es as [|[q w] r IH]; intros d; [reflexivity|].
  unfold upd_all. cbn [map fst snd]. fold (upd_all p v r). unfold memb. cbn [existsb map fst]. fold (memb p (keys r)).
  destruct (idx_eqb p q) eqn:E; cbn [last_match fst snd]; rewrite E; rewrite IH; cbn [orb]; [destruct (memb p (keys r))|]; reflexivity.
Qed.

Lemma last_match_upd_other j p v (es : list (idx * V)) : j <> p -> forall d,
  last_match j (upd_all p v es) d = last_match j es d.
Proof.
  intros Hne. induction es as [|[q w] r IH]; intros d; [reflexivity|].
  unfold upd_all. cbn [map fst snd]. fold (upd_all p v r).
  destruct (idx_eqb p q) eqn:E; cbn [last_match]; [|apply IH].
  apply idx_eqb_spec in E. subst q. rewrite (idx_eqb_neq j p Hne). apply IH.
Qed.

Definition inv (es : list (idx * V)) (st : list (idx * V) * list (idx * V)) (done : list (idx * V)) : Prop :=
  keys (fst st) = keys es /\ NoDup (keys (snd st)) /\ (forall k, In k (keys (snd st)) -> ~ In k (keys es)) /\
  (forall k, In k (keys (snd st)) -> In k (keys done)) /\
  forall j d, last_match j (fst st ++ snd st) d = last_match j done (last_match j es d).

Lemma inv_step es st done a : inv es st done -> inv es (loop_step (keys es) st a) (done ++ [a]).
Proof.
  destruct st as [es1 new], a as [p v]. intros (Hk & Hn & Hd & Hsub & Hl). unfold loop_step. cbn [fst snd] in *.
  destruct (memb p (keys es)) eqn:Em.
  - (* stored: overwritten in place *)
    repeat split; cbn [fst snd].
    + now rewrite upd_all_keys.
    + exact Hn.
    + exact Hd.
    + intros k Hk'. rewrite map_app. apply in_or_app. left. auto.
    + intros j d. rewrite !last_match_app. cbn [last_match].
      destruct (idx_eqb j p) eqn:E.
      * apply idx_eqb_spec in E. subst j. rewrite last_match_upd_same, Hk, Em.
        apply last_match_notin. intros e He Hf. apply (Hd p); [rewrite <- Hf; now apply in_map|]. now apply memb_spec.
      * assert (Hne : j <> p) by (intro; subst; rewrite idx_eqb_refl in E; discriminate).
        rewrite last_match_upd_other by exact Hne. rewrite <- last_match_app. apply Hl.
  - destruct (memb p (keys new)) eqn:En.
    + (* appended earlier in this call: pending *)
      repeat split; cbn [fst snd].
      * exact Hk.
      * now rewrite upd_all_keys.
      * intros k Hk'. rewrite upd_all_keys in Hk'. auto.
      * intros k Hk'. rewrite upd_all_keys in Hk'. rewrite map_app. apply in_or_app. left. auto.
      * intros j d. rewrite !last_match_app. cbn [last_match].
        destruct (idx_eqb j p) eqn:E.
        -- apply idx_eqb_spec in E. subst j. now rewrite last_match_upd_same, En.
        -- assert (Hne : j <> p) by (intro; subst; rewrite idx_eqb_refl in E; discriminate).
           rewrite last_match_upd_other by exact Hne. rewrite <- last_match_app. apply Hl.
    + (* new position: appended *)
      apply memb_false in Em. apply memb_false in En.
      repeat split; cbn [fst snd].
      * exact Hk.
      * rewrite map_app. cbn [map fst]. apply NoDup_app_intro; auto.
        -- constructor; [intros []|constructor].
        -- intros x Hx [<-|[]]. contradiction.
      * intros k Hk'. rewrite map_app in Hk'. apply in_app_or in Hk' as [Hk'|[<-|[]]]; auto.
      * intros k Hk'. rewrite map_app in Hk'. rewrite map_app. apply in_or_app.
        apply in_app_or in Hk' as [Hk'|Hk']; [left; auto|right; exact Hk'].
      * intros j d. rewrite app_assoc, last_match_app, Hl. now rewrite last_match_app.
Qed.

Lemma inv_fold es : forall asg st done, inv es st done ->
  inv es (fold_left (loop_step (keys es)) asg st) (done ++ asg).
Proof.
  induction asg as [|a r IH]; intros st done H; cbn [fold_left]; [now rewrite app_nil_r|].
  replace (done ++ a :: r) with ((done ++ [a]) ++ r) by (now rewrite <- app_assoc). apply IH. now apply inv_step.
Qed.

Lemma inv_init es : inv es (es, []) [].
Proof.
  unfold inv. cbn [fst snd map]. split; [reflexivity|]. split; [constructor|]. split; [intros k []|]. split; [intros k []|].
  intros j d. now rewrite app_nil_r.
Qed.

Lemma last_match_filter_nz (l : list (idx * V)) j : NoDup (keys l) ->
  last_match j (filter (fun e : idx * V => negb (isz (snd e))) l) v0 = last_match j l v0.
Proof.
  intros Hn. rewrite !last_match_lookup; auto; [|now apply filter_keys_nodup].
  rewrite (lookup_filter j (fun _ v => negb (isz v)) l Hn).
  destruct (lookup j l) as [v|]; auto. destruct (isz v) eqn:E; cbn; auto. symmetry. now apply isz_spec.
Qed.

Lemma nodup_all es (st : list (idx * V) * list (idx * V)) done : NoDup (keys es) -> inv es st done -> NoDup (keys (fst st ++ snd st)).
Proof.
  intros Hn (Hk & Hnn & Hd & _). rewrite map_app, Hk. apply NoDup_app_intro; auto.
  intros x Hx Hx'. exact (Hd x Hx' Hx).
Qed.

(* what the loop + sort + purge compute, as a list of entries *)
Theorem sptenmat_set_entries_den es asg : NoDup (keys es) ->
  forall j, last_match j (sptenmat_set_entries isz es asg) v0 = last_match j asg (last_match j es v0).
Proof.
  intros Hn j. unfold sptenmat_set_entries.
  pose proof (inv_fold es asg (es, []) [] (inv_init es)) as Hi. cbn [app] in Hi.
  destruct (fold_left (loop_step (keys es)) asg (es, [])) as [es1 new] eqn:Ef.
  pose proof (nodup_all es _ _ Hn Hi) as Hnd. destruct Hi as (_ & _ & _ & _ & Hl). cbn [fst snd] in *.
  destruct new as [|n0 nr] eqn:En.
  - rewrite app_nil_r in *. rewrite last_match_filter_nz by exact Hnd. apply Hl.
  - rewrite <- En in *. clear En n0 nr.
    assert (Hp : Permutation (es1 ++ new) (fold_right ins_row [] (es1 ++ new))) by apply sort_perm.
    rewrite last_match_filter_nz by (eapply Permutation_NoDup; [apply Permutation_map; exact Hp|exact Hnd]).
    rewrite <- (perm_equiv (es1 ++ new) _ Hnd Hp j v0). apply Hl.
Qed.

Theorem sptenmat_set_entries_wf s es asg : wf_es isz s es -> (forall a, In a asg -> inb s (fst a) = true) ->
  wf_es isz s (sptenmat_set_entries isz es asg).
Proof.
  intros [Hn He] Ha. unfold sptenmat_set_entries.
  pose proof (inv_fold es asg (es, []) [] (inv_init es)) as Hi. cbn [app] in Hi.
  destruct (fold_left (loop_step (keys es)) asg (es, [])) as [es1 new] eqn:Ef.
  pose proof (nodup_all es _ _ Hn Hi) as Hnd. destruct Hi as (Hk & _ & _ & Hsub & _). cbn [fst snd] in *.
  set (all := match new with [] => es1 | _ :: _ => fold_right ins_row [] (es1 ++ new) end).
  assert (Hp : Permutation (es1 ++ new) all).
  { subst all. destruct new; [now rewrite app_nil_r|apply sort_perm]. }
  split.
  - apply filter_keys_nodup. eapply Permutation_NoDup; [apply Permutation_map; exact Hp|exact Hnd].
  - intros e Hin. apply filter_In in Hin as [Hin Hz]. split; [|now apply negb_true_iff in Hz].
    apply Permutation_sym in Hp. eapply Permutation_in in Hin; [|exact Hp].
    apply in_app_or in Hin as [Hin|Hin].
    + assert (Hk' : In (fst e) (keys es)) by (rewrite <- Hk; now apply in_map).
      apply in_map_iff in Hk' as (e' & Hf & He'). rewrite <- Hf. now apply He.
    + assert (Hk' : In (fst e) (keys asg)) by (apply Hsub; now apply in_map).
      apply in_map_iff in Hk' as (a & Hf & Ha'). rewrite <- Hf. now apply Ha.
Qed.

Lemma embed_same n (f : idx -> V) j : length j = n -> embed v0 n f j = f j.
Proof.
  intros H. unfold embed. rewrite skipn_all2 by lia. cbn. now rewrite firstn_all2 by lia.
Qed.

Lemma finish_set_props (r : rhs V) s ps s' asg : finish_set r s ps = Some (s', asg) ->
  s' = s /\ forall a, In a asg -> inb s (fst a) = true.
Proof.
  unfold finish_set. destruct (rhs_values r (length ps)) as [vs|]; [|discriminate].
  destruct (forallb (inb s) ps) eqn:E; [|discriminate]. intros H. inversion H; subst. split; auto.
  intros a Ha. rewrite forallb_forall in E. apply E. destruct a as [p v]. apply in_combine_l in Ha. exact Ha.
Qed.

(* sptenmat.__setitem__ refines the abstract 2-way array and preserves the invariant *)
Theorem sptenmat_setitem_refines (S S' : sparse V) es (r : rhs V) :
  wf_sp isz S -> sptenmat_setitem isz S es r = Some S' ->
  exists ls asg,
    region_lists (sshape S) es = Some ls /\
    finish_set r (sshape S) (cartF (map snd ls)) = Some (sshape S, asg) /\
    eq_amap (abs_sp v0 S') (spec_set v0 (abs_sp v0 S) (sshape S) asg) /\
    wf_sp isz S' /\ sshape S' = sshape S /\ is_2way (sshape S') = true.
Proof.
  intros Hwf H. unfold sptenmat_setitem in H.
  destruct (is_2way (sshape S) && Nat.eqb (length es) 2) eqn:E2; [|discriminate].
  apply andb_true_iff in E2 as [E2 _].
  destruct (region_lists (sshape S) es) as [ls|] eqn:El; [|discriminate].
  destruct (finish_set r (sshape S) (cartF (map snd ls))) as [[s' asg]|] eqn:Ef; [|discriminate].
  inversion H; subst S'. clear H.
  destruct (finish_set_props _ _ _ _ _ Ef) as [-> Hin].
  pose proof (wf_es_entries isz S Hwf) as Hes.
  pose proof (sptenmat_set_entries_wf (sshape S) (entries S) asg Hes Hin) as Hwf'.
  exists ls, asg. split; [reflexivity|]. split; [exact Ef|]. split; [|split; [now apply wf_sp_of_entries|split; [reflexivity|exact E2]]].
  split; [reflexivity|].
  intros j. cbn [af abs_sp spec_set ashape]. rewrite den_of_entries.
  rewrite sptenmat_set_entries_den by (destruct Hes; auto).
  destruct (inb (sshape S) j) eqn:Ej.
  - rewrite embed_same by (now apply inb_length). reflexivity.
  - rewrite last_match_notin.
    + apply last_match_notin. intros e He Hf. destruct Hes as [_ Hes]. destruct (Hes e He) as [Hb _]. congruence.
    + intros a Ha Hf. specialize (Hin a Ha). congruence.
Qed.

(* the code accepts exactly the requests whose key resolves inside the fixed shape with an exactly sized right-hand side *)
Theorem sptenmat_setitem_total (S : sparse V) es (r : rhs V) ls s' asg :
  is_2way (sshape S) = true -> length es = 2 ->
  region_lists (sshape S) es = Some ls -> finish_set r (sshape S) (cartF (map snd ls)) = Some (s', asg) ->
  exists S', sptenmat_setitem isz S es r = Some S'.
Proof.
  intros H2 Hl Hr Hf. unfold sptenmat_setitem. rewrite H2, Hl, Hr, Hf. cbn. eauto.
Qed.
End P.
