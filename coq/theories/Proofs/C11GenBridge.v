(* Proofs/C11GenBridge.v — BRIDGE: the generated MU loop with the C11 kernels (Model/C11GenMu.v gen_mu over Gen/GenCpAprMu.v) computes
   exactly the hand model Model/C11Apr.v cp_apr_mu (the model Props/C11.v C11_mu_nonneg / C11_bookkeeping and C18's dense = sparse theorem are
   about), for every clock whose readings never exceed the time limit. *)
From Coq Require Import String List Arith Lia Bool ZArith.
From PV Require Import Base.Index Base.Sum Np.Array Model.Sparse Model.Repr Model.C14Nvecs Model.C11Apr Model.W4SPrelude Gen.GenCpAprMu
                       Model.C11GenMu Proofs.W4SCpAprMu Proofs.C11GenTotal Proofs.C11Proofs.
Import ListNotations.

Lemma splice_upd {A} (l : list A) : forall i v, i < length l -> firstn i l ++ v :: skipn (S i) l = upd l i v.
Proof. induction l as [|x l IH]; intros [|i] v H; cbn in *; try lia; auto. f_equal. apply IH. lia. Qed.
Lemma sk_set_upd {A} (l : list A) i v : i < length l -> sk_set l i v = Some (upd l i v).
Proof. intros H. unfold sk_set. destruct (i <? length l) eqn:E; [|apply Nat.ltb_ge in E; lia]. now rewrite splice_upd. Qed.
Lemma nth_error_upd {A} (l : list A) : forall i v, i < length l -> nth_error (upd l i v) i = Some v.
Proof. induction l as [|x l IH]; intros [|i] v H; cbn in *; try lia; auto. apply IH. lia. Qed.
Lemma nth_upd_same {A} (l : list A) i v d : i < length l -> nth i (upd l i v) d = v.
Proof. intros H. rewrite nth_upd by exact H. now rewrite Nat.eqb_refl. Qed.
Lemma remove_nth_upd {A} (l : list A) : forall n v, remove_nth n (upd l n v) = remove_nth n l.
Proof.
  unfold remove_nth. induction l as [|x l IH]; intros [|n] v; cbn [upd firstn skipn app]; auto.
  f_equal. apply IH.
Qed.
Lemma upd_nth_id {A} (l : list A) : forall n d, upd l n (nth n l d) = l.
Proof. induction l as [|x l IH]; intros [|n] d; cbn; auto. f_equal. apply IH. Qed.
Lemma firstn_upd_snoc {A} (l : list A) : forall i v, i < length l -> firstn (S i) (upd l i v) = firstn i l ++ [v].
Proof. induction l as [|x l IH]; intros [|i] v H; cbn in *; try lia; auto. f_equal. apply IH. lia. Qed.

Lemma map_seq_nth {B} (g : nat -> B) m a d : a < m -> nth a (map g (seq 0 m)) d = g a.
Proof.
  intros H. rewrite (nth_indep _ d (g 0)) by (rewrite map_length, seq_length; lia).
  rewrite map_nth, seq_nth by lia. reflexivity.
Qed.
Lemma existsb_false_In {A} (f : A -> bool) l x : existsb f l = false -> In x l -> f x = false.
Proof.
  induction l as [|y l IH]; cbn; intros H Hx; [contradiction|]. apply orb_false_iff in H. destruct H as [H1 H2].
  destruct Hx as [Hx|Hx]; subst; auto.
Qed.

Section Bridge.
Variable V : Type.
Variables (v0 v1 : V) (vadd vmul vsub : V -> V -> V).
Variable vdivmax_e : V -> V -> V -> V.
Variables (vscale : V -> V -> V) (vabs : V -> V) (vmin vmax : V -> V -> V) (vgt0 : V -> bool) (vltb : V -> V -> bool).
Variable W : Type.
Variable clock : W -> W * V.
Variable vloglik : dense V -> ktensor V -> V.
Variables (eps kappa kappatol stoptol : V) (maxinner : nat).
Variable X : dense V.

Notation matrix := (list (list V)).
Notation mg := (mget v0).
Notation state := (@state V).

Notation g_normalize_mode := (gk_normalize_mode v0 vadd vmul vscale vabs).
Notation g_normalize := (gk_normalize v0 vadd vmul vscale vabs).
Notation g_zeros := (gk_zeros v0).
Notation g_mask := (gk_mask v0 vgt0 vltb).
Notation g_add_kappa := (gk_add_kappa v0 vadd).
Notation g_redistribute := (gk_redistribute v0 v1 vmul).
Notation g_pi := (@gk_pi V).
Notation g_phi := (gk_phi v0 v1 vadd vmul vdivmax_e W).
Notation g_kkt := (gk_kkt v0 v1 vsub vabs vmin vmax).
Notation g_mult := (gk_mult v0 vmul).
Notation g_sort := (gk_normalize_sort v0 vadd vmul vscale vabs vltb).
Notation g_le := (g_leF vltb).
Notation g_max := (maxlist v0 vmax).
Notation gloop4 := (GenCpAprMu.cp_apr_mu_loop4 W V matrix (ktensor V) (dense V) (list matrix) g_le g_phi g_kkt g_mult).
Notation gloop3 := (GenCpAprMu.cp_apr_mu_loop3 W V matrix (list (list bool)) (ktensor V) (dense V) (list matrix) g_le g_mask gk_any g_add_kappa
  g_redistribute g_pi g_phi g_kkt g_mult g_normalize_mode).
Notation gloop2 := (GenCpAprMu.cp_apr_mu_loop2 W V matrix (list (list bool)) (ktensor V) (dense V) (list matrix) g_le vsub clock g_mask gk_any
  g_add_kappa g_redistribute g_pi g_phi g_kkt g_mult g_normalize_mode g_max).
Notation gloop1 := (GenCpAprMu.cp_apr_mu_loop1 matrix (ktensor V) g_zeros).
Notation gmu := (gen_mu v0 v1 vadd vmul vsub vdivmax_e vscale vabs vmin vmax vgt0 vltb W clock vloglik).

Notation h_redistribute := (redistribute v0 v1 vmul).
Notation h_normalize_mode := (normalize_mode v0 vadd vmul vscale vabs).
Notation h_calc_phi := (calc_phi v0 v1 vadd vmul (vdivmax_e eps)).
Notation h_kappa_fix := (kappa_fix v0 vadd vgt0 vltb kappa kappatol).
Notation h_inner := (inner v0 v1 vadd vmul vsub (vdivmax_e eps) vabs vmin vmax vltb stoptol).
Notation h_mode_step := (mode_step v0 v1 vadd vmul vsub (vdivmax_e eps) vscale vabs vmin vmax vgt0 vltb kappa kappatol stoptol maxinner).
Notation h_sweep := (sweep v0 v1 vadd vmul vsub (vdivmax_e eps) vscale vabs vmin vmax vgt0 vltb kappa kappatol stoptol maxinner).
Notation h_outer := (outer v0 v1 vadd vmul vsub (vdivmax_e eps) vscale vabs vmin vmax vgt0 vltb kappa kappatol stoptol maxinner).
Notation h_mu := (C11Apr.cp_apr_mu v0 v1 vadd vmul vsub (vdivmax_e eps) vscale vabs vmin vmax vgt0 vltb kappa kappatol stoptol maxinner).
Notation h_kkt := (kkt_mode v0 v1 vsub vabs vmin vmax).

(* the generated tuple of a hand state *)
Definition tup4 (st : state) (ni : list nat) (w : W) := (K_of st, sPhi st, sconv st, skkt st, ni, w).

Lemma inner_S f n st : h_inner (S f) X n st =
  let A := fac st n in
  let Phi := h_calc_phi X n st in
  let kkt := h_kkt A Phi (rankof st) in
  let st1 := mkSt (sw st) (sA st) (upd (sPhi st) n Phi) (upd (skkt st) n kkt) (sconv st) in
  if vltb kkt stoptol then st1
  else h_inner f X n (mkSt (sw st1) (upd (sA st1) n (mtab (length A) (rankof st) (fun a r => vmul (mg A a r) (mg Phi a r))))
                          (sPhi st1) (skkt st1) false).
Proof. reflexivity. Qed.

(* inner loop *)
Lemma inner_bridge it n rank : forall fuel i st ni w,
  n < length (sPhi st) -> n < length (skkt st) -> it < length ni ->
  exists ni', gloop4 (remove_nth n (sA st)) eps X it n rank stoptol fuel i (tup4 st ni w) = Some (tup4 (h_inner fuel X n st) ni' w) /\
              length ni' = length ni.
Proof.
  induction fuel as [|fuel IH]; intros i st ni w H1 H2 H3.
  - exists ni. split; reflexivity.
  - unfold tup4 at 1. cbn [GenCpAprMu.cp_apr_mu_loop4].
    destruct (nth_error_some ni it H3) as (c & ->).
    rewrite (sk_set_upd ni it (c + 1) H3).
    unfold gk_phi at 1. cbv iota beta.
    assert (Eph : phi_of v0 v1 vadd vmul vdivmax_e eps X n (kfac (K_of st) n) (krank (K_of st)) (remove_nth n (sA st)) = h_calc_phi X n st) by reflexivity.
    rewrite Eph. set (ph := h_calc_phi X n st).
    rewrite (sk_set_upd (sPhi st) n ph H1).
    assert (Ek : g_kkt (K_of st) n (upd (sPhi st) n ph) = h_kkt (fac st n) ph (rankof st)).
    { unfold gk_kkt. rewrite nth_upd_same by exact H1. reflexivity. }
    rewrite Ek. set (kk := h_kkt (fac st n) ph (rankof st)).
    rewrite (sk_set_upd (skkt st) n kk H2), (nth_error_upd (skkt st) n kk H2).
    unfold g_leF. rewrite negb_involutive. rewrite inner_S. cbv zeta. fold ph. fold kk.
    destruct (vltb kk stoptol).
    + exists (upd ni it (c + 1)). split; [reflexivity|apply upd_length].
    + set (st2 := mkSt (sw st) (upd (sA st) n (mtab (length (fac st n)) (rankof st) (fun a r => vmul (mg (fac st n) a r) (mg ph a r))))
                       (upd (sPhi st) n ph) (upd (skkt st) n kk) false).
      destruct (IH (S i) st2 (upd ni it (c + 1)) w) as (ni' & E & L).
      * cbn. now rewrite upd_length.
      * cbn. now rewrite upd_length.
      * now rewrite upd_length.
      * exists ni'. split; [|rewrite L; apply upd_length].
        cbn [sA st2] in E. unfold st2 in E at 1. cbn [sA] in E. rewrite remove_nth_upd in E.
        unfold gk_mult. rewrite nth_upd_same by exact H1. exact E.
Qed.

(* ---- shape invariant: rank R, N rectangular factors, N Phi matrices, N per-mode KKT values *)
Definition rectK (R : nat) (As : list matrix) : Prop := Forall (Forall (fun row => length row = R)) As.
Definition J (R N : nat) (st : state) : Prop :=
  rankof st = R /\ rectK R (sA st) /\ length (sA st) = N /\ length (sPhi st) = N /\ length (skkt st) = N.

Lemma mtab_rect m k (f : nat -> nat -> V) : Forall (fun row => length row = k) (mtab m k f).
Proof.
  unfold mtab. apply Forall_forall. intros row Hr. apply in_map_iff in Hr. destruct Hr as (a & <- & _).
  now rewrite map_length, seq_length.
Qed.
Lemma mtab_length m k (f : nat -> nat -> V) : length (mtab m k f) = m.
Proof. unfold mtab. now rewrite map_length, seq_length. Qed.
Lemma mtab_nth m k (f : nat -> nat -> V) a : a < m -> nth a (mtab m k f) [] = map (fun b => f a b) (seq 0 k).
Proof. intros H. unfold mtab. now rewrite map_seq_nth. Qed.
Lemma mtab_ext_in' m k (f g : nat -> nat -> V) : (forall a b, a < m -> b < k -> f a b = g a b) -> mtab m k f = mtab m k g.
Proof.
  intros H. unfold mtab. apply map_ext_in. intros a Ha. apply in_seq in Ha. apply map_ext_in. intros b Hb. apply in_seq in Hb.
  apply H; lia.
Qed.
Lemma mtab_id (A : matrix) R : Forall (fun row => length row = R) A -> mtab (length A) R (fun a r => mg A a r) = A.
Proof.
  intros H. apply nth_ext with (d := []) (d' := []); [apply mtab_length|]. rewrite mtab_length. intros a Ha.
  rewrite mtab_nth by exact Ha.
  assert (L : length (nth a A []) = R) by (rewrite Forall_forall in H; apply H, nth_In, Ha).
  apply nth_ext with (d := v0) (d' := v0); [now rewrite map_length, seq_length|]. rewrite map_length, seq_length. intros r Hr.
  rewrite map_seq_nth by exact Hr. reflexivity.
Qed.

Lemma J_mk R N w As Phi km cv : length w = R -> rectK R As -> length As = N -> length Phi = N -> length km = N -> J R N (mkSt w As Phi km cv).
Proof. intros. repeat split; assumption. Qed.
Lemma rect_upd R As n m f : rectK R As -> rectK R (upd As n (mtab m R f)).
Proof. intros H. apply Forall_upd; [exact H|apply mtab_rect]. Qed.

Lemma J_redistribute R N n st : J R N st -> J R N (h_redistribute n st).
Proof.
  intros (H1 & H2 & H3 & H4 & H5). unfold redistribute. apply J_mk; auto.
  - now rewrite repeat_length.
  - rewrite H1. now apply rect_upd.
  - now rewrite upd_length.
Qed.
Lemma J_normalize R N n st : J R N st -> J R N (h_normalize_mode n st).
Proof.
  intros (H1 & H2 & H3 & H4 & H5). unfold normalize_mode. apply J_mk; auto.
  - now rewrite map_length, seq_length.
  - rewrite H1. now apply rect_upd.
  - now rewrite upd_length.
Qed.
Lemma J_kappa R N n st : J R N st -> J R N (h_kappa_fix n st).
Proof.
  intros (H1 & H2 & H3 & H4 & H5). unfold kappa_fix, set_fac. apply J_mk; auto.
  - rewrite H1. now apply rect_upd.
  - now rewrite upd_length.
Qed.
Lemma J_inner R N n : forall fuel st, J R N st -> J R N (h_inner fuel X n st).
Proof.
  induction fuel as [|fuel IH]; intros st H; [exact H|]. rewrite inner_S. cbv zeta.
  destruct H as (H1 & H2 & H3 & H4 & H5).
  destruct (vltb _ stoptol).
  - apply J_mk; auto; now rewrite upd_length.
  - apply IH. apply J_mk; cbn [sw sA sPhi skkt]; auto; try (now rewrite upd_length).
    rewrite H1. now apply rect_upd.
Qed.

Lemma K_redistribute n st : g_redistribute (K_of st) n = K_of (h_redistribute n st).
Proof. reflexivity. Qed.
Lemma K_normalize n nt st : g_normalize_mode (K_of st) n nt = K_of (h_normalize_mode n st).
Proof. reflexivity. Qed.

(* the inadmissible-zero repair: `if np.any(V): M.factor_matrices[n][V > 0] += kappa` = the hand model's unconditional re-tabulation *)
Lemma mask_nth Phi n (M : ktensor V) a r : a < length (kfac M n) -> r < krank M ->
  nth r (nth a (g_mask Phi n M kappatol) []) false = vgt0 (mg (nth n Phi []) a r) && vltb (mg (kfac M n) a r) kappatol.
Proof. intros Ha Hr. unfold gk_mask. rewrite map_seq_nth by exact Ha. now rewrite map_seq_nth by exact Hr. Qed.

Lemma kappa_bridge R N n st : J R N st ->
  K_of (h_kappa_fix n st) =
  (if gk_any (g_mask (sPhi st) n (K_of st) kappatol) then g_add_kappa (K_of st) n (g_mask (sPhi st) n (K_of st) kappatol) kappa else K_of st).
Proof.
  intros (H1 & H2 & H3 & H4 & H5). unfold kappa_fix, set_fac, K_of at 1. cbn [sw sA].
  destruct (gk_any _) eqn:Ea.
  - unfold gk_add_kappa. cbn [kweights kfactors K_of]. f_equal. f_equal. apply mtab_ext_in'. intros a r Ha Hr.
    rewrite mask_nth by assumption. reflexivity.
  - unfold K_of. f_equal.
    assert (Hrect : Forall (fun row => length row = rankof st) (fac st n)).
    { unfold fac. destruct (nth_in_or_default n (sA st) []) as [Hi| ->]; [|constructor].
      unfold rectK in H2. rewrite Forall_forall in H2. rewrite H1. apply H2, Hi. }
    rewrite (mtab_ext_in' _ _ _ (fun a r => mg (fac st n) a r)).
    + rewrite (mtab_id _ _ Hrect). apply upd_nth_id.
    + intros a r Ha Hr.
      pose proof (mask_nth (sPhi st) n (K_of st) a r Ha Hr) as Hm. unfold kfac in Hm.
      change (nth n (kfactors (K_of st)) []) with (fac st n) in Hm. rewrite <- Hm.
      assert (Hf : nth r (nth a (g_mask (sPhi st) n (K_of st) kappatol) []) false = false).
      { unfold gk_any in Ea.
        assert (La : a < length (g_mask (sPhi st) n (K_of st) kappatol)) by (unfold gk_mask; now rewrite map_length, seq_length).
        pose proof (existsb_false_In _ _ _ Ea (nth_In _ [] La)) as Hrow.
        assert (Lr : r < length (nth a (g_mask (sPhi st) n (K_of st) kappatol) [])).
        { unfold gk_mask. rewrite map_seq_nth by exact Ha. now rewrite map_length, seq_length. }
        exact (existsb_false_In _ _ _ Hrow (nth_In _ false Lr)). }
      now rewrite Hf.
Qed.

Lemma J_mode_step R N it n st : J R N st -> J R N (h_mode_step X it n st).
Proof.
  intros H. unfold mode_step. apply J_normalize, J_inner, J_redistribute. destruct it; [exact H|now apply J_kappa].
Qed.

(* mode loop *)
Lemma modes_bridge R N it rank : forall fuel i st nopt ni nv w,
  J R N st -> i + fuel <= N -> it < length ni -> it < length nv ->
  exists nopt' ni' nv',
    gloop3 N eps X it kappa kappatol maxinner rank stoptol fuel i (K_of st, sPhi st, sconv st, skkt st, nopt, ni, nv, w) =
      (let st' := fold_left (fun s n => h_mode_step X it n s) (seq i fuel) st in
       Some (K_of st', sPhi st', sconv st', skkt st', nopt', ni', nv', w)) /\
    length ni' = length ni /\ length nv' = length nv.
Proof.
  induction fuel as [|fuel IH]; intros i st nopt ni nv w HJ Hi H3 H4.
  - exists nopt, ni, nv. cbn. auto.
  - cbn [GenCpAprMu.cp_apr_mu_loop3 seq fold_left].
    assert (T : forall st1 (V1 : option (list (list bool))) nv1, J R N st1 -> length nv1 = length nv ->
      exists nopt' ni' nv',
        match gloop4 (g_pi X (g_redistribute (K_of st1) i) rank i N) eps X it i rank stoptol maxinner 0
                     (g_redistribute (K_of st1) i, sPhi st1, sconv st1, skkt st1, ni, w) with
        | None => None
        | Some (v_M, v_Phi, v_isConverged, v_kktModeViolations, v_nInnerIters, v_w) =>
            gloop3 N eps X it kappa kappatol maxinner rank stoptol fuel (S i)
              (g_normalize_mode v_M i 1, v_Phi, v_isConverged, v_kktModeViolations, Some i, v_nInnerIters, nv1, v_w)
        end =
        (let st' := fold_left (fun s n => h_mode_step X it n s) (seq (S i) fuel)
                      (h_normalize_mode i (h_inner maxinner X i (h_redistribute i st1))) in
         Some (K_of st', sPhi st', sconv st', skkt st', nopt', ni', nv', w)) /\
        length ni' = length ni /\ length nv' = length nv).
    { intros st1 V1 nv1 HJ1 Lnv.
      pose proof (J_redistribute R N i st1 HJ1) as HJ2. set (st2 := h_redistribute i st1) in *.
      destruct HJ2 as (A1 & A2 & A3 & A4 & A5).
      destruct (inner_bridge it i rank maxinner 0 st2 ni w ltac:(lia) ltac:(lia) H3) as (ni1 & E & L1).
      match goal with |- context [gloop4 ?a ?b ?c ?d ?e ?f ?g ?h ?j ?t] =>
        assert (E' : gloop4 a b c d e f g h j t = Some (tup4 (h_inner maxinner X i st2) ni1 w)) by exact E; rewrite E' end.
      unfold tup4. cbv iota beta.
      set (st3 := h_inner maxinner X i st2).
      assert (HJ4 : J R N (h_normalize_mode i st3)) by (apply J_normalize, J_inner; repeat split; assumption).
      destruct (IH (S i) (h_normalize_mode i st3) (Some i) ni1 nv1 w HJ4 ltac:(lia) ltac:(lia) ltac:(lia)) as (nopt' & ni' & nv' & E2 & B1 & B2).
      exists nopt', ni', nv'. split; [exact E2|]. split; congruence. }
    destruct it as [|it'].
    + cbn [Nat.ltb Nat.leb]. apply (T st None nv HJ eq_refl).
    + change (0 <? S it') with true. cbv iota zeta.
      pose proof (kappa_bridge R N i st HJ) as Ek.
      pose proof (J_kappa R N i st HJ) as HJk.
      destruct (gk_any (g_mask (sPhi st) i (K_of st) kappatol)).
      * destruct (nth_error_some nv (S it') H4) as (c & ->). rewrite (sk_set_upd nv (S it') (c + 1) H4). cbv iota beta.
        rewrite <- Ek.
        destruct (T (h_kappa_fix i st) (Some (g_mask (sPhi st) i (K_of st) kappatol)) (upd nv (S it') (c + 1)) HJk (upd_length _ _ _))
          as (nopt' & ni' & nv' & E & B1 & B2).
        exists nopt', ni', nv'. split; [exact E|]. split; [exact B1|exact B2].
      * cbv iota beta. rewrite <- Ek.
        apply (T (h_kappa_fix i st) (Some (g_mask (sPhi st) i (K_of st) kappatol)) nv HJk eq_refl).
Qed.

Lemma J_fold R N it l : forall st, J R N st -> J R N (fold_left (fun s n => h_mode_step X it n s) l st).
Proof. induction l as [|n l IH]; intros st H; cbn [fold_left]; [exact H|]. apply IH, J_mode_step, H. Qed.

Lemma outer_S f iter st kkts : h_outer (S f) X iter st kkts =
  let st' := h_sweep X iter st in
  let kkts' := kkts ++ [g_max (skkt st')] in
  if sconv st' then (st', kkts') else h_outer f X (S iter) st' kkts'.
Proof. reflexivity. Qed.

Variable stoptime : V.
Hypothesis never_late : forall t, vltb stoptime t = false.      (* no clock reading exceeds the time limit *)

(* outer loop *)
Lemma outer_bridge R N rank start : forall fuel i st kkts itopt kv nopt ni nt nv w,
  J R N st -> length kkts = i -> firstn i kv = kkts -> i + fuel <= length kv ->
  length ni = length kv -> length nt = length kv -> length nv = length kv ->
  exists itopt' kv' nopt' ni' nt' nv' w',
    gloop2 N eps X kappa kappatol maxinner rank start stoptime stoptol fuel i (K_of st, sPhi st, itopt, skkt st, kv, nopt, ni, nt, nv, w) =
      Some (K_of (fst (h_outer fuel X i st kkts)), sPhi (fst (h_outer fuel X i st kkts)), itopt', skkt (fst (h_outer fuel X i st kkts)),
            kv', nopt', ni', nt', nv', w') /\
    firstn (length (snd (h_outer fuel X i st kkts))) kv' = snd (h_outer fuel X i st kkts) /\
    itopt' = match fuel with O => itopt | S _ => Some (length (snd (h_outer fuel X i st kkts)) - 1) end /\
    length ni' = length kv /\ length nv' = length kv /\ length nt' = length kv.
Proof.
  induction fuel as [|fuel IH]; intros i st kkts itopt kv nopt ni nt nv w HJ Hk Hf Hi L1 L2 L3.
  - exists itopt, kv, nopt, ni, nt, nv, w. cbn. rewrite Hk. repeat split; assumption.
  - cbn [GenCpAprMu.cp_apr_mu_loop2]. rewrite outer_S. cbv zeta.
    set (st0 := mkSt (sw st) (sA st) (sPhi st) (skkt st) true).
    assert (HJ0 : J R N st0) by exact HJ.
    destruct (modes_bridge R N i rank N 0 st0 nopt ni nv w HJ0 ltac:(lia) ltac:(lia) ltac:(lia)) as (nopt1 & ni1 & nv1 & E & B1 & B2).
    cbv zeta in E.
    assert (Esw : fold_left (fun s n => h_mode_step X i n s) (seq 0 N) st0 = h_sweep X i st).
    { unfold sweep. destruct HJ as (_ & _ & HN & _). now rewrite HN. }
    rewrite Esw in E. set (st' := h_sweep X i st) in *.
    assert (HJ' : J R N st') by (rewrite <- Esw; now apply J_fold).
    match goal with |- context [gloop3 ?a ?b ?c ?d ?e ?f ?g ?h ?j ?k ?l ?t] =>
      assert (E' : gloop3 a b c d e f g h j k l t = Some (K_of st', sPhi st', sconv st', skkt st', nopt1, ni1, nv1, w)) by exact E; rewrite E' end.
    cbv iota beta.
    rewrite (sk_set_upd kv i (g_max (skkt st')) ltac:(lia)).
    destruct (clock w) as [w2 t].
    rewrite (sk_set_upd nt i (vsub t start) ltac:(lia)).
    assert (Hf' : firstn (S i) (upd kv i (g_max (skkt st'))) = kkts ++ [g_max (skkt st')]).
    { rewrite firstn_upd_snoc by lia. now rewrite Hf. }
    destruct (sconv st') eqn:Ec.
    + do 7 eexists. split; [reflexivity|]. cbn [fst snd]. rewrite app_length, Hk. cbn [length].
      replace (i + 1) with (S i) by lia. split; [exact Hf'|]. split; [f_equal; lia|]. rewrite upd_length. repeat split; congruence.
    + rewrite (nth_error_upd nt i (vsub t start) ltac:(lia)). unfold g_leF at 1. rewrite never_late. cbn [negb].
      destruct (IH (S i) st' (kkts ++ [g_max (skkt st')]) (Some i) (upd kv i (g_max (skkt st'))) nopt1 ni1 (upd nt i (vsub t start)) nv1 w2 HJ')
        as (itopt' & kv' & nopt' & ni' & nt' & nv' & w' & E2 & C1 & C2 & C3 & C4 & C5);
        rewrite ?app_length, ?upd_length; cbn [length]; try lia; try exact Hf'; try congruence.
      exists itopt', kv', nopt', ni', nt', nv', w'. split; [exact E2|]. split; [exact C1|].
      rewrite upd_length in C3, C4, C5. repeat split; try assumption.
      rewrite C2. destruct fuel as [|fuel']; [|reflexivity].
      cbn [outer snd]. rewrite app_length, Hk. cbn [length]. f_equal. lia.
Qed.

(* ---- initialisation *)
Lemma loop1_eq M : forall fuel i Phi n, exists n', gloop1 M fuel i (Phi, n) = Some (Phi ++ map (g_zeros M) (seq i fuel), n').
Proof.
  induction fuel as [|fuel IH]; intros i Phi n.
  - exists n. cbn. now rewrite app_nil_r.
  - cbn [GenCpAprMu.cp_apr_mu_loop1 seq map]. destruct (IH (S i) (Phi ++ [g_zeros M i]) (Some i)) as (n' & E).
    exists n'. rewrite E. now rewrite <- app_assoc.
Qed.

Lemma map_length_upd {A} (l : list (list A)) : forall n x, length x = length (nth n l []) ->
  map (@length A) (upd l n x) = map (@length A) l.
Proof. induction l as [|y l IH]; intros [|n] x H; cbn in *; auto; f_equal; auto. Qed.
Lemma map_seq_all {A B} (g : A -> B) (l : list A) d : map (fun n => g (nth n l d)) (seq 0 (length l)) = map g l.
Proof.
  apply nth_ext with (d := g d) (d' := g d); [now rewrite !map_length, seq_length|].
  rewrite map_length, seq_length. intros i Hi. rewrite map_seq_nth by exact Hi. now rewrite map_nth.
Qed.

Notation h_init := (init_state v0 vadd vmul vscale vabs).
Definition norm_all (l : list nat) (st : state) : state := fold_left (fun s n => h_normalize_mode n s) l st.

Lemma norm_all_K l : forall st, K_of (norm_all l st) = fold_left (fun K n => g_normalize_mode K n 1) l (K_of st).
Proof. induction l as [|n l IH]; intros st; cbn [norm_all fold_left]; [reflexivity|]. fold (norm_all l (h_normalize_mode n st)). now rewrite IH. Qed.
Lemma norm_all_rest l : forall st, sPhi (norm_all l st) = sPhi st /\ skkt (norm_all l st) = skkt st /\
  rankof (norm_all l st) = rankof st /\ map (@length (list V)) (sA (norm_all l st)) = map (@length (list V)) (sA st).
Proof.
  induction l as [|n l IH]; intros st; cbn [norm_all fold_left]; [auto|]. fold (norm_all l (h_normalize_mode n st)).
  destruct (IH (h_normalize_mode n st)) as (A1 & A2 & A3 & A4). rewrite A1, A2, A3, A4. repeat split.
  - unfold normalize_mode, rankof. cbn [sw]. now rewrite map_length, seq_length.
  - unfold normalize_mode. cbn [sA]. apply map_length_upd. now rewrite mtab_length.
Qed.
Lemma norm_all_J R N l : forall st, J R N st -> J R N (norm_all l st).
Proof. induction l as [|n l IH]; intros st H; cbn [norm_all fold_left]; [exact H|]. apply IH, J_normalize, H. Qed.

Lemma outer_len_S : forall f i st kkts, length kkts < length (snd (h_outer (S f) X i st kkts)).
Proof.
  induction f as [|f IH]; intros i st kkts; rewrite outer_S; cbv zeta; destruct (sconv _).
  - cbn [snd]. rewrite app_length. cbn. lia.
  - cbn [outer snd]. rewrite app_length. cbn. lia.
  - cbn [snd]. rewrite app_length. cbn. lia.
  - specialize (IH (S i) (h_sweep X i st) (kkts ++ [g_max (skkt (h_sweep X i st))])). rewrite app_length in IH. cbn [length] in IH. lia.
Qed.

(* ---- the whole function *)
Theorem gen_mu_bridge : forall w rank (K : ktensor V) maxiters printitn printinner N,
  wf_k K -> N = length (kfactors K) -> 1 <= maxiters ->
  let r := h_mu X K maxiters in
  let Mfin := g_sort (K_of (fst r)) 1 true in
  exists ninner nviol ntotal times tstop w',
    gmu w X rank K stoptol stoptime maxiters maxinner eps printitn printinner kappa kappatol N =
      Some (Mfin, (snd r, ninner, nviol, ntotal, times, tstop, vloglik X Mfin), w') /\
    length ninner = length (snd r) /\ length nviol = length (snd r) /\ length times = length (snd r).
Proof.
  intros w rank K maxiters printitn printinner N Hwf HN Hm. cbv zeta.
  unfold C11Apr.cp_apr_mu. set (sti := h_init K).
  assert (Hinit : sti = norm_all (seq 0 (length (kfactors K)))
            (mkSt (kweights K) (kfactors K) (map (fun A : matrix => mtab (length A) (length (kweights K)) (fun _ _ => v0)) (kfactors K))
                  (repeat v0 (length (kfactors K))) true)) by reflexivity.
  set (st00 := mkSt (kweights K) (kfactors K) (map (fun A : matrix => mtab (length A) (length (kweights K)) (fun _ _ => v0)) (kfactors K))
                  (repeat v0 (length (kfactors K))) true) in Hinit.
  assert (HK0 : g_normalize K 1 = K_of sti).
  { rewrite Hinit, norm_all_K. unfold gk_normalize. destruct K; reflexivity. }
  destruct (norm_all_rest (seq 0 (length (kfactors K))) st00) as (R1 & R2 & R3 & R4). rewrite <- Hinit in R1, R2, R3, R4.
  assert (HJ : J (krank K) N sti).
  { rewrite Hinit. apply norm_all_J. unfold st00. apply J_mk; auto.
    - now rewrite map_length.
    - now rewrite repeat_length. }
  assert (HPhi : map (g_zeros (K_of sti)) (seq 0 N) = sPhi sti).
  { rewrite R1. unfold st00. cbn [sPhi]. rewrite HN. rewrite <- (map_seq_all (fun A : matrix => mtab (length A) (length (kweights K)) (fun _ _ => v0)) (kfactors K) []).
    apply map_ext. intros n. unfold gk_zeros, kfac, krank, K_of. cbn [kfactors kweights].
    change (length (sw sti)) with (rankof sti). rewrite R3. unfold st00, rankof. cbn [sw]. f_equal.
    change (length (nth n (sA sti) [])) with (length (nth n (sA sti) (@nil (list V)))).
    rewrite <- (map_nth (@length (list V)) (sA sti) [] n), R4. unfold st00. cbn [sA]. now rewrite (map_nth (@length (list V))). }
  unfold gen_mu, GenCpAprMu.cp_apr_mu. rewrite HK0.
  destruct (loop1_eq (K_of sti) N 0 [] None) as (n0 & ->). cbn [app]. rewrite HPhi.
  destruct (clock w) as [w1 t1].
  assert (Hkm : repeat v0 N = skkt sti) by (rewrite R2; unfold st00; cbn [skkt]; now rewrite HN).
  rewrite Hkm.
  destruct (outer_bridge (krank K) N rank t1 maxiters 0 sti [] None (repeat (vsub v0 v1) maxiters) n0 (repeat 0 maxiters) (repeat v0 maxiters)
              (repeat 0 maxiters) w1 HJ eq_refl eq_refl)
    as (itopt' & kv' & nopt' & ni' & nt' & nv' & w' & E & C1 & C2 & C3 & C4 & C5); rewrite ?repeat_length; try lia.
  rewrite E. destruct (clock w') as [w3 t3].
  destruct maxiters as [|m]; [lia|]. rewrite C2.
  pose proof (outer_len_S m 0 sti []) as Hlen. cbn [length] in Hlen.
  set (r := h_outer (S m) X 0 sti []) in *.
  replace (length (snd r) - 1 + 1) with (length (snd r)) by lia.
  unfold sk_slice. cbn [skipn]. rewrite Nat.sub_0_r, C1.
  do 6 eexists. split; [reflexivity|]. rewrite repeat_length in C3, C4, C5.
  pose proof E as E0. apply loop2_len in E0. destruct E0 as (LA & _). rewrite repeat_length in LA.
  pose proof (f_equal (@length V) C1) as Hc. rewrite firstn_length in Hc.
  rewrite !firstn_length. lia.
Qed.

End Bridge.

Local Open Scope Z_scope.
Lemma gen_bridge_ex :
  let X := mkDense [3; 2]%nat [2; 0; 1; 3; 0; 4] in
  let K := mkK [1; 2] [[[1; 2]; [0; 0]; [2; 1]]; [[1; 1]; [3; 0]]] in
  let r := C11Apr.cp_apr_mu 0 1 Z.add Z.mul Z.sub (fun x v => x) (fun t a => a) Z.abs Z.min Z.max (Z.ltb 0) Z.ltb 1 3 1 1%nat X K 2%nat in
  match gen_mu 0 1 Z.add Z.mul Z.sub (fun eps x v => x) (fun t a => a) Z.abs Z.min Z.max (Z.ltb 0) Z.ltb nat (fun w => (S w, Z.of_nat w))
               (fun _ _ => 7) 5%nat X 2%nat K 1 100 2%nat 1%nat 1 0%nat 0%nat 1 3 2%nat with
  | Some (M, (kkt, _, _, _, _, _, _), _) =>
      M = gk_normalize_sort 0 Z.add Z.mul (fun t a => a) Z.abs Z.ltb (K_of (fst r)) 1 true /\ kkt = snd r /\ kkt = [1643; 34371575995622399]
  | None => False
  end.
Proof. vm_compute. repeat split; reflexivity. Qed.
