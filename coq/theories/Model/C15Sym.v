(* Model/C15Sym.v — symmetrisation of a tensor (a function from subscripts to values) over disjoint groups of modes,
   and the symmetry test (pyttb/tensor.py symmetrize / issymmetric, both versions; ktensor.symmetrize).
   spec_sym averages over ALL rearrangements of the subscripts inside each group:
      sym_group X g i = (1/|g|!) * sum over the |g|! permutations v of (i_m)_{m in g} of X(i with v written at g)
   Definitions only; proofs in Proofs/C15Proofs.v. *)
From Coq Require Import List Arith Lia Bool.
From PV Require Import Base.Index Base.Perm Base.Sum Np.Array Model.Repr.
Import ListNotations.

Fixpoint set_nth (l : list nat) (k v : nat) : list nat :=
  match l, k with
  | [], _ => []
  | _ :: l', 0 => v :: l'
  | x :: l', S k' => x :: set_nth l' k' v
  end.
(* write vals at the positions g of i *)
Fixpoint put (g vals : list nat) (i : idx) : idx :=
  match g, vals with
  | m :: g', v :: vals' => put g' vals' (set_nth i m v)
  | _, _ => i
  end.
Fixpoint insert_all (x : nat) (l : list nat) : list (list nat) :=
  match l with [] => [[x]] | y :: l' => (x :: l) :: map (cons y) (insert_all x l') end.
Fixpoint perms (l : list nat) : list (list nat) :=
  match l with [] => [[]] | x :: l' => flat_map (insert_all x) (perms l') end.
(* exchange the entries j and j+1 of a list *)
Fixpoint swap_adj (j : nat) (l : list nat) : list nat :=
  match j, l with
  | 0, a :: b :: l' => b :: a :: l'
  | S j', a :: l' => a :: swap_adj j' l'
  | _, _ => l
  end.

Section S15.
Context {V : Type} (v0 v1 : V) (vadd vmul : V -> V -> V) (vinv : V -> V) (veqb : V -> V -> bool).

Fixpoint of_nat (n : nat) : V := match n with 0 => v0 | S n' => vadd v1 (of_nat n') end.

Definition sym_group (X : idx -> V) (g : list nat) : idx -> V :=
  fun i => let ps := perms (pick 0 g i) in
           vmul (vinv (of_nat (length ps))) (sum_over v0 vadd ps (fun vals => X (put g vals i))).
Definition spec_sym (X : idx -> V) (G : list (list nat)) : idx -> V := fold_left sym_group G X.

(* the symmetry test: every group has equal mode sizes and exchanging two adjacent group positions never changes a value *)
Definition group_cubical (s : shape) (g : list nat) : bool :=
  forallb (fun m => Nat.eqb (nth m s 0) (nth (hd 0 g) s 0)) g.
Definition adj_ok (X : idx -> V) (g : list nat) (i : idx) : bool :=
  forallb (fun j => veqb (X (put g (swap_adj j (pick 0 g i)) i)) (X i)) (seq 0 (length g - 1)).
Definition spec_issym (s : shape) (X : idx -> V) (G : list (list nat)) : bool :=
  forallb (group_cubical s) G &&
  forallb (fun k => forallb (fun g => adj_ok X g (ind2sub s k)) G) (seq 0 (size s)).
End S15.
