(* Props/C15.v — symmetrisation and the symmetry test. Only statements, each closed by a bare [exact] (wave 4: the former
   intros/eapply scripts live in Proofs/C15W4.v), Print Assumptions. *)
From Coq Require Import List Arith Bool ZArith Permutation Ring.
From PV Require Import Base.Index Base.Perm Base.Sum Model.Repr Model.C15Sym Model.C15Impl Model.C15K Proofs.C15Proofs
  Proofs.C15Orbit Proofs.C15ImplProofs Proofs.C15Old Proofs.C15K Proofs.C15KNorm Model.C08Kruskal Proofs.C15W4.
Import ListNotations.

Section C15.
Variable V : Type.
Variables (v0 v1 : V) (vadd vmul vsub : V -> V -> V) (vopp vinv : V -> V) (veqb : V -> V -> bool).
Hypothesis Vring : ring_theory v0 v1 vadd vmul vsub vopp (@eq V).
Hypothesis char0 : forall n, n <> 0 -> of_nat v0 v1 vadd n <> v0.          (* characteristic 0 *)
Hypothesis vinv_l : forall x, x <> v0 -> vmul (vinv x) x = v1.
Hypothesis veqb_spec : forall a b, veqb a b = true <-> a = b.

(* every summand of the average is a rearrangement of the group's subscripts, the subscripts themselves included *)
Theorem C15_sym_spec_terms : forall l y, In y (perms l) -> Permutation l y.
Proof. exact perms_sound. Qed.

(* invariance under the exchange of two adjacent group positions implies invariance under EVERY rearrangement *)
Theorem C15_adjacent_transpositions_suffice : forall (X : idx -> V) g i,
  (forall pre a b post, X (put g (pre ++ a :: b :: post) i) = X (put g (pre ++ b :: a :: post) i)) ->
  forall vals vals', Permutation vals vals' -> X (put g vals i) = X (put g vals' i).
Proof. exact (adjacent_suffices V). Qed.

(* symmetrising keeps the value of an already symmetric tensor (one group, and any list of groups) *)
Theorem C15_fixes_symmetric : forall G (X : idx -> V), (forall g, In g G -> sym_in V X g) ->
  forall i, spec_sym v0 v1 vadd vmul vinv X G i = X i.
Proof. exact (s15_fixes_symmetric V v0 v1 vadd vmul vsub vopp vinv Vring char0 vinv_l). Qed.

(* the symmetry test (spec): true exactly when the groups are cubical and no adjacent exchange changes a value *)
Theorem C15_issym_spec : forall s (X : idx -> V) G,
  spec_issym veqb s X G = true <->
  (forall g, In g G -> group_cubical s g = true) /\
  (forall i, inb s i = true -> forall g, In g G -> forall j, j < length g - 1 ->
     X (put g (swap_adj j (pick 0 g i)) i) = X i).
Proof. exact (s15_issym_spec V veqb veqb_spec). Qed.

(* a Kruskal tensor whose factor matrices are identical is symmetric in all modes *)
Theorem C15_kruskal_sym : forall w (A : list (list V)) N i i', Permutation i i' ->
  den_k v0 v1 vadd vmul (mkK w (repeat A N)) i = den_k v0 v1 vadd vmul (mkK w (repeat A N)) i'.
Proof. exact (s15_kruskal_sym V v0 v1 vadd vmul vsub vopp Vring). Qed.

(* ---- wave 2 ---- *)
(* (the wave-1 statement C15_result_symmetric_stmt, false as written — no bound on the group positions — is kept visible as
   s15_result_symmetric_stmt in Proofs/C15W4.v; the theorems below carry the missing premise okg) *)
(* rearranging a list rearranges the list of its rearrangements (the core of the orbit argument), and every
   rearrangement occurs among the summands *)
Theorem C15_perms_respects_rearrangement : forall l l', Permutation l l' -> Permutation (perms l) (perms l').
Proof. exact perms_Permutation. Qed.
Theorem C15_sym_spec_terms_complete : forall l y, Permutation l y -> In y (perms l).
Proof. exact perms_complete. Qed.

(* RESULT SYMMETRIC, one group: the average over a group (distinct modes < N) is invariant under every rearrangement of
   the subscripts inside the group — no hypothesis on the ring beyond commutativity *)
Theorem C15_result_symmetric : forall N (X : idx -> V) g, okg N g ->
  forall i vals, length i = N -> Permutation (pick 0 g i) vals ->
  sym_group v0 v1 vadd vmul vinv X g (put g vals i) = sym_group v0 v1 vadd vmul vinv X g i.
Proof. exact (s15_result_symmetric V v0 v1 vadd vmul vsub vopp vinv Vring). Qed.

(* RESULT SYMMETRIC, several pairwise disjoint groups: spec_sym X G is symmetric in EVERY group of G *)
Theorem C15_result_symmetric_groups : forall N G, groups_ok N G -> forall (X : idx -> V) g, In g G ->
  forall i vals, length i = N -> Permutation (pick 0 g i) vals ->
  spec_sym v0 v1 vadd vmul vinv X G (put g vals i) = spec_sym v0 v1 vadd vmul vinv X G i.
Proof. exact (s15_result_symmetric_groups V v0 v1 vadd vmul vsub vopp vinv veqb Vring). Qed.

(* IDEMPOTENCE: symmetrising again changes nothing (characteristic 0) *)
Theorem C15_idempotent : forall N G (X : idx -> V), groups_ok N G -> forall i, length i = N ->
  spec_sym v0 v1 vadd vmul vinv (spec_sym v0 v1 vadd vmul vinv X G) G i = spec_sym v0 v1 vadd vmul vinv X G i.
Proof. exact (s15_idempotent V v0 v1 vadd vmul vsub vopp vinv veqb Vring char0 vinv_l). Qed.

(* the result of symmetrising passes the (spec) symmetry test *)
(* GLUE: the boolean test (adjacent exchanges, in-bounds subscripts only) answers true exactly when every group is
   cubical and the tensor is invariant under EVERY rearrangement inside every group at every in-bounds subscript *)
Theorem C15_issym_exact : forall s (X : idx -> V) G, (forall g, In g G -> okg (length s) g) ->
  (spec_issym veqb s X G = true <->
   forall g, In g G -> group_cubical s g = true /\
     forall i vals, inb s i = true -> Permutation (pick 0 g i) vals -> X (put g vals i) = X i).
Proof. exact (s15_issym_exact V veqb veqb_spec). Qed.

(* pyttb's NEW issymmetric (class-exemplar comparison) and OLD issymmetric (X.permute(p) == X for every rearrangement of
   every group) both compute the spec test — hence agree with each other *)
Theorem C15_issym_new : forall s (X : idx -> V) G, (forall g, In g G -> okg (length s) g) ->
  impl_issym_new veqb s X G = spec_issym veqb s X G.
Proof. exact (s15_issym_new V veqb veqb_spec). Qed.
Theorem C15_issym_old : forall s (X : idx -> V) G, (forall g, In g G -> okg (length s) g) ->
  impl_issym_old veqb s X G = spec_issym veqb s X G.
Proof. exact (s15_issym_old V veqb veqb_spec). Qed.

(* pyttb's NEW symmetrize (class average with the "already symmetric" short-cut), any list of cubical groups:
   equals the spec average at every in-bounds subscript (orbit counting) *)
Theorem C15_sym_new : forall s G, (forall g, In g G -> okg (length s) g /\ group_cubical s g = true) ->
  forall (X : idx -> V) i, inb s i = true ->
  impl_sym_new v0 v1 vadd vmul vinv veqb s X G i = spec_sym v0 v1 vadd vmul vinv X G i.
Proof. exact (s15_sym_new V v0 v1 vadd vmul vsub vopp vinv veqb Vring char0 vinv_l veqb_spec). Qed.

(* ---- wave 3 ---- *)
(* pyttb's OLD symmetrize (version != None: explicit average of X.permute(p) over the table sym_perms of all combinations
   of within-group mode rearrangements, then the "max-fix" loop Y = max(Y, Y.permute(p))), for ANY max with
   max a a = a: equals the spec average at every N-way subscript, for all pairwise disjoint groups of distinct modes *)
Theorem C15_sym_old : forall (vmax : V -> V -> V), (forall a, vmax a a = a) ->
  forall N G, groups_ok N G -> forall (X : idx -> V) i, length i = N ->
  impl_sym_old v0 v1 vadd vmul vinv vmax N X G i = spec_sym v0 v1 vadd vmul vinv X G i.
Proof. exact (s15_sym_old V v0 v1 vadd vmul vsub vopp vinv Vring char0 vinv_l). Qed.

(* the explicit average alone (before the max-fix) already is the spec average *)
Theorem C15_sym_old_average : forall N G, groups_ok N G -> forall (X : idx -> V) i, length i = N ->
  sym_old_avg v0 v1 vadd vmul vinv N X G i = spec_sym v0 v1 vadd vmul vinv X G i.
Proof. exact (s15_sym_old_average V v0 v1 vadd vmul vsub vopp vinv Vring char0 vinv_l). Qed.

(* the statement kept open in wave 2 (with its size and in-bounds premises), now a theorem *)
Theorem C15_sym_old_as_stated :
  forall (vmax : V -> V -> V), (forall a, vmax a a = a) ->
  forall s G, groups_ok (length s) G -> (forall g, In g G -> group_cubical s g = true) ->
  forall (X : idx -> V) i, inb s i = true ->
  impl_sym_old v0 v1 vadd vmul vinv vmax (length s) X G i = spec_sym v0 v1 vadd vmul vinv X G i.
Proof. exact (s15_sym_old_as_stated V v0 v1 vadd vmul vsub vopp vinv Vring char0 vinv_l). Qed.

(* "the two implementations of each dense operation agree with each other": NEW and OLD symmetrize *)
Theorem C15_sym_versions_agree : forall (vmax : V -> V -> V), (forall a, vmax a a = a) ->
  forall s G, groups_ok (length s) G -> (forall g, In g G -> group_cubical s g = true) ->
  forall (X : idx -> V) i, inb s i = true ->
  impl_sym_new v0 v1 vadd vmul vinv veqb s X G i = impl_sym_old v0 v1 vadd vmul vinv vmax (length s) X G i.
Proof. exact (s15_sym_versions_agree V v0 v1 vadd vmul vsub vopp vinv veqb Vring char0 vinv_l veqb_spec). Qed.

(* ---- wave 3: ktensor.symmetrize.  k15_core (Model/C15K.v) transliterates the body of ktensor.symmetrize after its
   normalize("all") (sign alignment of every factor with factor 0 and weight toggles, average, odd-order weight repair);
   [neg] is the oracle for the test "x < 0" ---- *)
Section Kruskal.
Variable neg : V -> bool.

(* "symmetrising a Kruskal tensor returns a Kruskal tensor that is symmetric in all modes": for EVERY input the result
   consists of N copies of one factor matrix, so the array it denotes is invariant under every rearrangement of the subscripts *)
Theorem C15_ksym_identical : forall K1 A0 As, kfactors K1 = A0 :: As ->
  exists w M, k15_core v0 v1 vadd vmul vopp vinv neg K1 = mkK w (repeat M (S (length As))).
Proof. exact (s15_ksym_identical V v0 v1 vadd vmul vopp vinv neg). Qed.
Theorem C15_ksym_symmetric : forall K1 i i', Permutation i i' ->
  den_k v0 v1 vadd vmul (k15_core v0 v1 vadd vmul vopp vinv neg K1) i =
  den_k v0 v1 vadd vmul (k15_core v0 v1 vadd vmul vopp vinv neg K1) i'.
Proof. exact (s15_ksym_symmetric V v0 v1 vadd vmul vsub vopp vinv Vring neg). Qed.

(* the oracle: a sum of squares is not negative; if minus a sum of squares is not negative either, every term is zero *)
Hypothesis neg_sq : forall (h : nat -> V) n, neg (sum_n v0 vadd n (fun x => vmul (h x) (h x))) = false.
Hypothesis neg_opp_sq : forall (h : nat -> V) n, neg (vopp (sum_n v0 vadd n (fun x => vmul (h x) (h x)))) = false ->
  forall x, x < n -> h x = v0.

(* "an already symmetric tensor keeps its value": if every factor is, column by column, one matrix B up to a sign +-1
   (what normalize("all") makes of identical factors with weights of either sign, and of factors stored with scrambled
   column signs), the denoted array is unchanged — all orders N >= 1, sizes, ranks, weights *)
Theorem C15_ksym_keeps : forall (B : list (list V)) m R K1, kfactors K1 <> [] -> krank K1 = R ->
  (forall A, In A (kfactors K1) -> signed_copy v0 v1 vmul vopp B m R A) ->
  forall i, den_k v0 v1 vadd vmul (k15_core v0 v1 vadd vmul vopp vinv neg K1) i = den_k v0 v1 vadd vmul K1 i.
Proof. exact (s15_ksym_keeps V v0 v1 vadd vmul vsub vopp vinv Vring char0 vinv_l neg neg_sq neg_opp_sq). Qed.
End Kruskal.
End C15.

(* ---- wave 3: ktensor.symmetrize END TO END on a Kruskal tensor with identical factors: symmetrize = the body k15_core
   after normalize("all") (k_normalize of Model/C08Kruskal.v, the model proved value-preserving in C08).  Oracles as in C08
   (norm positive on non-zero columns, N-th root on the non-negative values, sort permutation, sign test) plus: a sum of
   squares is not negative and vanishes only termwise.  "An already symmetric tensor keeps its value": any size, rank,
   weights of either sign, order N = S n >= 1 *)
Section C15K.
Variable V : Type.
Variables (v0 v1 : V) (vadd vmul vsub : V -> V -> V) (vopp vinv : V -> V).
Hypothesis Vring : ring_theory v0 v1 vadd vmul vsub vopp (@eq V).
Variables (nrm : list V -> V) (pos neg : V -> bool) (root : V -> V) (srt : list V -> list nat).
Hypothesis vinv_r : forall x, x <> v0 -> vmul x (vinv x) = v1.
Hypothesis vinv_l : forall x, x <> v0 -> vmul (vinv x) x = v1.
Hypothesis char0 : forall n, n <> 0 -> of_nat v0 v1 vadd n <> v0.
Hypothesis pos_nz : forall x, pos x = true -> x <> v0.
Hypothesis nrm_pos : forall l, pos (nrm l) = false -> Forall (fun y => y = v0) l.
Hypothesis srt_perm : forall l, is_perm (srt l) (length l).
Hypothesis neg_opp : forall x, neg x = true -> neg (vopp x) = false.
Hypothesis neg_sq : forall (h : nat -> V) n, neg (sum_n v0 vadd n (fun x => vmul (h x) (h x))) = false.
Hypothesis neg_opp_sq : forall (h : nat -> V) n, neg (vopp (sum_n v0 vadd n (fun x => vmul (h x) (h x)))) = false ->
  forall x, x < n -> h x = v0.

Theorem C15_ksym_identical_input_keeps : forall (w : list V) (A : list (list V)) n,
  (forall x, neg x = false -> vpow v1 vmul (root x) (S n) = x) ->
  forall i,
  den_k v0 v1 vadd vmul (k15_core v0 v1 vadd vmul vopp vinv neg
     (k_normalize v0 v1 vmul vopp vinv nrm pos neg root srt WAll false None (mkK w (repeat A (S n))))) i =
  den_k v0 v1 vadd vmul (mkK w (repeat A (S n))) i.
Proof. exact (s15_ksym_identical_input_keeps V v0 v1 vadd vmul vsub vopp vinv Vring nrm pos neg root srt vinv_r vinv_l char0 pos_nz nrm_pos srt_perm neg_opp neg_sq neg_opp_sq). Qed.
End C15K.

Print Assumptions C15_sym_spec_terms.
Print Assumptions C15_adjacent_transpositions_suffice.
Print Assumptions C15_fixes_symmetric.
Print Assumptions C15_issym_spec.
Print Assumptions C15_kruskal_sym.
Print Assumptions C15_perms_respects_rearrangement.
Print Assumptions C15_sym_spec_terms_complete.
Print Assumptions C15_result_symmetric.
Print Assumptions C15_result_symmetric_groups.
Print Assumptions C15_idempotent.
Print Assumptions C15_issym_exact.
Print Assumptions C15_issym_new.
Print Assumptions C15_issym_old.
Print Assumptions C15_sym_new.
Print Assumptions C15_sym_old.
Print Assumptions C15_sym_old_average.
Print Assumptions C15_sym_old_as_stated.
Print Assumptions C15_sym_versions_agree.
Print Assumptions C15_ksym_identical.
Print Assumptions C15_ksym_symmetric.
Print Assumptions C15_ksym_keeps.
Print Assumptions C15_ksym_identical_input_keeps.

(* non-vacuity: a non-symmetric 2x2 matrix, one group [0;1] over Z-valued functions is not available without division;
   the list machinery on a concrete instance *)
Example C15_example_perms : perms [1; 2; 3] = [[1; 2; 3]; [2; 1; 3]; [2; 3; 1]; [1; 3; 2]; [3; 1; 2]; [3; 2; 1]]
  /\ put [0; 2] [7; 9] [1; 2; 3] = [7; 2; 9] /\ swap_adj 1 [4; 5; 6] = [4; 6; 5].
Proof. exact s15_example_perms. Qed.

(* non-vacuity of the wave-2 theorems: a NON-symmetric 2x3x3 tensor over Qc, group [1;2] (a proper subset of the modes) *)
From Coq Require Import QArith Qcanon.
From PV Require Import Np.Array Model.Harness Model.C15Inst.
Local Open Scope nat_scope.
Example C15_example_new_old_spec :
  q_issym exT [[1; 2]] = false /\ q_impls_agree exT [[1; 2]] = true /\ q_issym_impls_agree exT [[1; 2]] = true /\
  Qc_eq_bool (q_sym exT [[1; 2]] [1; 0; 2]) (Q2Qc (10 # 1)) = true /\ Qc_eq_bool (q_sym exT [[1; 2]] [1; 2; 0]) (Q2Qc (10 # 1)) = true /\
  Qc_eq_bool (qden exT [1; 0; 2]) (Q2Qc (14 # 1)) = true /\ Qc_eq_bool (qden exT [1; 2; 0]) (Q2Qc (6 # 1)) = true /\
  q_issym (tabulate [2; 3; 3] (q_sym exT [[1; 2]])) [[1; 2]] = true.
Proof. exact s15_example_new_old_spec. Qed.

(* non-vacuity of the wave-3 theorem on OLD symmetrize: two groups [[0;1];[2;3]] of a NON-symmetric 2x2x2x2 tensor — the table
   sym_perms has the four combinations, and the transliteration (explicit average + max-fix) equals the spec *)
Example C15_example_old_two_groups :
  sym_perms 4 [[0; 1]; [2; 3]] = [[0; 1; 2; 3]; [1; 0; 2; 3]; [0; 1; 3; 2]; [1; 0; 3; 2]] /\
  q_issym exT4 [[0; 1]; [2; 3]] = false /\ q_impls_agree exT4 [[0; 1]; [2; 3]] = true /\
  Qc_eq_bool (q_sym exT4 [[0; 1]; [2; 3]] [1; 0; 0; 1]) (Q2Qc (17 # 2)) = true.
Proof. exact s15_example_old_two_groups. Qed.

(* the same over the rationals with the EXACT sign test: the oracle hypotheses of C15_ksym_keeps are theorems there
   (a sum of rational squares is not negative and vanishes only termwise), so nothing is assumed *)
Theorem C15_ksym_keeps_rational : forall (B : list (list Qc)) m R (K1 : ktensor Qc), kfactors K1 <> [] -> krank K1 = R ->
  (forall A, In A (kfactors K1) -> signed_copy q0 q1 Qcmult Qcopp B m R A) ->
  forall i, qden_k (q_k15_core K1) i = qden_k K1 i.
Proof. exact s15_ksym_keeps_rational. Qed.
Print Assumptions C15_ksym_keeps_rational.

(* non-vacuity of the Kruskal theorems: order 3, rank 2, factors B.diag(1,-1), B.diag(-1,-1), B with B = [[1 2];[3 -1]]
   (not identical: the signs are scrambled), weights (2, -3): every factor is a signed copy of B, the model's result has three
   identical factors and denotes the same (non-constant) array *)
From PV Require Import Model.C08Inst.
Example C15_example_ksym :
  q_k15_signed_copies exK = true /\ q_mats_identical (kfactors exK) = false /\
  q_mats_identical (kfactors (q_k15_core exK)) = true /\ length (kfactors (q_k15_core exK)) = 3 /\
  qk_den_eqb [2; 2; 2] exK (q_k15_core exK) = true /\
  Qc_eq_bool (qden_k exK [0; 1; 0]) (Q2Qc (6 # 1)) = true /\ Qc_eq_bool (qden_k exK [1; 1; 1]) (Q2Qc (-51 # 1)) = true.
Proof. exact s15_example_ksym. Qed.
