(* Model/C07Gen4.v — the permute REQUEST on sparse and Kruskal holders entirely over GENERATED code: the order as written is read
   by the generated parse_one_d (Gen/GenUtils3b.v, through Model/C07Req.v order_of), the operation is the generated whole
   method sptensor.permute / ktensor.permute (Gen/GenSptensor4.v, Gen/GenKtensor4.v; `self` is a record of Np/NpZ3.v).
   Definitions only; Proofs/C07Gen4.v ties them to permute_sp_req / permute_k_req of Model/C07Req.v. *)
From Coq Require Import List ZArith Bool.
From PV Require Import Np.NpZ Np.NpZ2 Np.NpZ3 Np.NpZ3b Np.NpZ4d Gen.GenUtils3b Gen.GenSptensor4 Gen.GenSptensor4b Gen.GenSptensor4d Gen.GenKtensor4
  Model.Sparse Model.C07Ops Model.W4Sptensor Model.C07Req Model.C07W5.
Import ListNotations.

(* sptensor.permute looks at the dtype of the parsed order (`order.dtype == bool`, /repo 9c8fdd5): the generated method takes
   the 0 / 1 vector of a boolean order together with the flag `true`; an integer order goes in with `false`; any other parsed
   array (floats) never reaches a result (numpy refuses it as a column index) *)
Definition sptensor_permute_req (self : sptz) (x : pyshp) : res sptz :=
  match bool_order_of x with
  | Some bz => sptensor_permute self bz true
  | None => match order_of x with Some pz => sptensor_permute self pz false | None => Err end
  end.
(* ktensor.permute takes the entries of a boolean order as the numbers 1 / 0 (order.tolist(), list indexing): order_of_k of
   Model/C07W5.v; on integer orders order_of_k = order_of *)
Definition ktensor_permute_req (self : ktz) (x : pyshp) : res ktz :=
  match order_of_k x with Some pz => ktensor_permute self pz | None => Err end.

(* the reshape REQUEST on a sparse holder entirely over generated code: the target as written is read by the generated parse_shape,
   the operation is the generated whole method sptensor.reshape (Gen/GenSptensor4d.v, which calls the generated tt_sub2ind /
   tt_ind2sub); old_modes as np.atleast_1d reads it (None = the default) *)
Definition sptensor_reshape_req (self : sptz) (x : pyshp) (oldz : option vec) : res sptz :=
  bind (parse_shape x) (fun nz => sptensor_reshape self nz oldz).

(* the generated whole method sptensor.squeeze (Gen/GenSptensor4b.v; result: a tensor or a number) read as a result of
   Model/C07Ops.v (None = the method raises: .item() on more than one stored value) *)
Definition sptensor_squeeze_res (self : sptz) : option (C07Ops.sq_res (V:=Z) (sparse Z)) :=
  match sptensor_squeeze self with
  | Ok (NpZ4d.SqTensor t) => Some (C07Ops.SqT (to_Sp t))
  | Ok (NpZ4d.SqScalar v) => Some (C07Ops.SqScalar v)
  | Err => None
  end.

(* ---------------- wave 6: sptensor.squeeze's return statements with the singleton test as a parameter.  `keep d` = "mode size d is
   no singleton": /repo up to 6e4bb42 tests `shape > 1` (keep = Nat.ltb 1: squeeze_sp_impl of Model/C07Impl.v, a size-0 mode is
   dropped like a singleton — finding N-C07-7), the repaired text (fixes/C07-N-C07-7.diff) tests `shape != 1` (a size-0 mode is kept) *)
Fixpoint sqk {A} (keep : nat -> bool) (s : list nat) (l : list A) : list A :=
  match s, l with
  | d :: s', x :: l' => if keep d then x :: sqk keep s' l' else sqk keep s' l'
  | _, _ => []
  end.

Definition squeeze_sp_impl_k {V : Type} (keep : nat -> bool) (v0 : V) (S : sparse V) : option (C07Ops.sq_res (V:=V) (sparse V)) :=
  let s := sshape S in
  if forallb keep s then Some (C07Ops.SqT S)
  else match sqk keep s s with
       | [] => match svals S with
               | [] => Some (C07Ops.SqScalar v0)
               | [v] => Some (C07Ops.SqScalar v)
               | _ :: _ :: _ => None
               end
       | s' => if Nat.eqb (length (svals S)) 0 then Some (C07Ops.SqT (mkSp s' [] []))
               else Some (C07Ops.SqT (mkSp s' (map (sqk keep s) (ssubs S)) (svals S)))
       end.

Definition ne1 (d : nat) : bool := negb (Nat.eqb d 1).
(* the return statements of the repaired sptensor.squeeze (`shapeArray != 1`) *)
Definition squeeze_sp_impl_ne {V : Type} (v0 : V) (S : sparse V) := squeeze_sp_impl_k ne1 v0 S.

(* probe of the text regenerated on THIS run: does the generated sptensor.squeeze keep a size-0 mode?  (the witness of N-C07-7:
   shape (2,0,1), nothing stored, must come back with shape (2,0)) *)
Definition sq_text_keeps_zero : bool :=
  match sptensor_squeeze (mkspt [] [] [2; 0; 1]%Z) with
  | Ok (NpZ4d.SqTensor t) => match spt_shape t with [2; 0]%Z => true | _ => false end
  | _ => false
  end.
