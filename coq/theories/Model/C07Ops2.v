(* Model/C07Ops2.v — the Tucker holder with a SPARSE core (pyttb.ttensor accepts a tensor or an sptensor as .core)
   and its permute.  Source anchors: pyttb/ttensor.py permute (order must be a permutation of the modes, then
   core.permute(order) — for an sptensor core that is sptensor.permute — and the factor matrices are gathered),
   pyttb/sptensor.py permute.  Definitions only; proofs in Proofs/C07Tucker.v. *)
From Coq Require Import List Arith Lia Bool.
From PV Require Import Base.Index Base.Perm Base.Sum Np.Array Model.Sparse Model.Repr Model.C07Ops.
Import ListNotations.

Section Ops2.
Context {V : Type} (v0 v1 : V) (vadd vmul : V -> V -> V).

(* Tucker tensor whose core is stored in coordinate format *)
Record sttensor := mkST { stcore : sparse V; stfactors : list (matrix (V:=V)) }.
Definition stshape (T : sttensor) : shape := map nrows (stfactors T).

(* the array it denotes: sum over the core index set of core[j] * prod_n U_n[i_n, j_n] *)
Definition den_st (T : sttensor) (i : idx) : V :=
  if inb (stshape T) i
  then sum_over v0 vadd (allsubs (sshape (stcore T)))
         (fun j => vmul (den_sp v0 (stcore T) j) (tprod v0 v1 vmul (stfactors T) i j))
  else v0.

(* the same holder with the core expanded (core.full()) *)
Definition st_dense (T : sttensor) : ttensor V := mkT (full v0 (stcore T)) (stfactors T).

(* ttensor.permute with an sptensor core *)
Definition permute_st (T : sttensor) (p : list nat) : option sttensor :=
  if is_permb p (length (stfactors T))
  then match permute_sp (stcore T) p with
       | Some c => Some (mkST c (pick [] p (stfactors T)))
       | None => None
       end
  else None.

(* full() of the factored holders: the dense tensor of their entries (pyttb: ktensor.full, ttensor.full; C01 proves
   that pyttb's own algorithms compute exactly these) — reshape / squeeze exist only on tensor and sptensor, so a
   Kruskal / Tucker holder is reshaped or squeezed through full() *)
Definition full_k (K : ktensor V) : dense V := tabulate (kshape K) (den_k v0 v1 vadd vmul K).
Definition full_t (T : ttensor V) : dense V := tabulate (tshape T) (den_t v0 v1 vadd vmul T).
Definition full_st (T : sttensor) : dense V := tabulate (stshape T) (den_st T).

End Ops2.

Arguments sttensor V : clear implicits.
Arguments mkST {V} stcore stfactors.
