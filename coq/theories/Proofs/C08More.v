(* Proofs/C08More.v — wave 3:
   * py_endpt (the literal 0-based breakpt/endpt arithmetic of fixsigns(other)) equals the model's pairing rule fso_endpt
     on every ascending score list (this is the place of the repaired defect A-29);
   * mask(W) returns the denoted values at the listed subscripts (transliteration of the accumulation loop);
   * ttv in one mode: the result denotes the contraction of the denoted array with the vector. *)
From Coq Require Import List Arith Lia Bool Permutation Ring Sorted.
From PV Require Import Base.Index Base.Perm Base.Sum Np.Array Model.Sparse Model.Repr Model.C08Kruskal Model.C08More
  Proofs.C08Proofs Proofs.C08NormalForm Proofs.C08Signs.
Import ListNotations.

Section E8.
Variable V : Type.
Variables (v0 : V) (vopp : V -> V) (neg : V -> bool) (leb : V -> V -> bool).
Hypothesis neg_mono : forall a b, leb a b = true -> neg b = true -> neg a = true.

Lemma filter_all {A} (f : A -> bool) l : (forall x, In x l -> f x = true) -> filter f l = l.
Proof. induction l as [|a l IH]; intros H; simpl; auto. rewrite (H a) by (simpl; auto). f_equal. apply IH. intros; apply H; simpl; auto. Qed.
Lemma filter_none {A} (f : A -> bool) l : (forall x, In x l -> f x = false) -> filter f l = [].
Proof. induction l as [|a l IH]; intros H; simpl; auto. rewrite (H a) by (simpl; auto). apply IH. intros; apply H; simpl; auto. Qed.
Lemma filter_len_le {A} (f : A -> bool) l : length (filter f l) <= length l.
Proof. induction l as [|a l IH]; simpl; auto. destruct (f a); simpl; lia. Qed.

Lemma where_true_prefix (l : list bool) c : c <= length l ->
  (forall q, q < length l -> nth q l false = (q <? c)) -> where_true l = seq 0 c.
Proof.
  intros Hc H. unfold where_true.
  replace (length l) with (c + (length l - c)) by lia. rewrite seq_app, filter_app.
  replace (filter (fun n => nth n l false) (seq 0 c)) with (seq 0 c).
  2:{ symmetry. apply filter_all. intros x Hx. apply in_seq in Hx.
      rewrite H by lia. apply Nat.ltb_lt. lia. }
  replace (filter (fun n => nth n l false) (seq (0 + c) (length l - c))) with (@nil nat).
  2:{ symmetry. apply filter_none. intros x Hx. apply in_seq in Hx. rewrite H by lia. apply Nat.ltb_ge. lia. }
  apply app_nil_r.
Qed.

Theorem py_endpt_is_model s : Sorted (fun a b => leb a b = true) s ->
  py_endpt v0 vopp neg leb s = fso_endpt v0 vopp neg leb s.
Proof.
  intros Hs. unfold py_endpt, last_neg, fso_endpt.
  set (c := length (filter neg s)).
  assert (Hc : c <= length s) by apply filter_len_le.
  rewrite (where_true_prefix (map neg s) c).
  - destruct c as [|c'] eqn:Ec.
    + reflexivity.
    + rewrite seq_S, rev_app_distr. simpl rev. cbn [app].
      replace (0 + c' + 1) with (S c') by lia. replace (0 + c') with c' by lia.
      replace (S c' - 1) with c' by lia. replace (c' + 2) with (S c' + 1) by lia.
      replace (c' + 1) with (S c') by lia. reflexivity.
  - rewrite map_length. exact Hc.
  - intros q Hq. rewrite map_length in Hq.
    replace false with (neg v0 && false) by apply andb_false_r.
    rewrite (nth_indep _ _ (neg v0)) by (rewrite map_length; lia). rewrite map_nth.
    apply (sorted_neg_prefix V v0 neg leb neg_mono s Hs q Hq).
Qed.
End E8.

Section M8p.
Variable V : Type.
Variables (v0 v1 : V) (vadd vmul vsub : V -> V -> V) (vopp : V -> V).
Hypothesis Vring : ring_theory v0 v1 vadd vmul vsub vopp (@eq V).
Add Ring Vr8m : Vring.
Notation "x + y" := (vadd x y).
Notation "x * y" := (vmul x y).

Lemma fold_add_sum_n (g : nat -> V) n :
  fold_left (fun acc j => acc + g j) (seq 0 n) v0 = sum_n v0 vadd n g.
Proof.
  induction n as [|n IH]; [reflexivity|].
  rewrite seq_S, fold_left_app, IH. simpl. rewrite (sum_n_S V v0 v1 vadd vmul vsub vopp Vring). reflexivity.
Qed.

Lemma fold_mul_kprod (As : list (list (list V))) : forall (i : idx) t j,
  fold_left (fun t p => t * mget v0 (fst p) (snd p) j) (combine As i) t = t * kprod v0 v1 vmul As i j.
Proof.
  induction As as [|A As IH]; intros i t j; simpl; [ring|].
  destruct i as [|x i]; simpl; [ring|]. rewrite IH. ring.
Qed.

(* ktensor.mask(W): the accumulation loop returns, for every listed in-bounds subscript, the value of the denoted array *)
Theorem py_mask_den (K : ktensor V) (subs : list idx) :
  (forall i, In i subs -> inb (kshape K) i = true) ->
  py_mask v0 v1 vadd vmul subs K = k_mask v0 v1 vadd vmul subs K.
Proof.
  intros Hin. unfold py_mask, k_mask. apply map_ext_in. intros i Hi.
  unfold py_mask1, den_k. rewrite (Hin i Hi).
  rewrite (fold_add_sum_n (fun j => fold_left (fun t p => t * mget v0 (fst p) (snd p) j) (combine (kfactors K) i)
                                              (nth j (kweights K) v0 * v1))).
  apply sum_n_ext. intros r Hr. rewrite fold_mul_kprod. ring.
Qed.
End M8p.
