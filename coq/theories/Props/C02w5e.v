(* Props/C02w5e.v — property C02, wave 5: the dense inner product does not depend on the MEMORY ORDER of the operands' data arrays (a tensor
   enlarged by assignment holds C-ordered data; seeded changes C02-G / C02-I flatten in memory order instead).  tensor.data = (shape, memory
   order, buffer in memory order); tensor.innerprod's logical first-index-fastest flattening of both operands followed by dot is the sum over
   indices of the products of the entries the operands denote, for every pair of memory orders.
   Only statements, `exact`, Print Assumptions (and closed Examples).  Proofs: Proofs/C02LayoutProofs.v. *)
From Coq Require Import List Arith Bool ZArith.
From PV Require Import Base.Index Base.Sum Np.Array Model.C02Spec Model.C02Dense Model.C02Layout Proofs.C02LayoutProofs.
Import ListNotations.

Section C02w5e.
Variable V : Type.
Variables (v0 : V) (vadd vmul : V -> V -> V).

Theorem C02_innerprod_dense_layout : forall X Y : larr (V := V), lshape X = lshape Y ->
  impl_innerprod_l v0 vadd vmul X Y = spec_innerprod v0 vadd vmul (den_l v0 X) (den_l v0 Y) (lshape X).
Proof. exact (impl_innerprod_l_correct V v0 vadd vmul). Qed.

(* what such an array denotes: Fortran-ordered = the ordinary dense tensor; C-ordered = the reversed-mode dense tensor at the reversed subscript *)
Theorem C02_layout_F : forall (s : shape) (d : list V) i, den_l v0 (mkL s LF d) i = den_dense v0 (mkDense s d) i.
Proof. exact (den_l_F V v0). Qed.

Theorem C02_layout_C : forall (s : shape) (d : list V) i, inb s i = true ->
  den_l v0 (mkL s LC d) i = den_dense v0 (mkDense (rev s) d) (rev i).
Proof. exact (den_l_C V v0). Qed.
End C02w5e.
Print Assumptions C02_innerprod_dense_layout.
Print Assumptions C02_layout_F.
Print Assumptions C02_layout_C.

Local Open Scope Z_scope.
(* X = [[1 3 5]; [2 4 6]] stored C-ordered (buffer 1 3 5 2 4 6), Y = [[1 0 2]; [0 1 -1]] stored F-ordered (buffer 1 0 0 1 2 -1):
   <X, Y> = 1 + 10 + 4 - 6 = 9; the dot product of the two BUFFERS would be 1 + 0 + 0 + 2 + 8 - 6 = 5 *)
Example C02_ex_innerprod_layout :
  impl_innerprod_l 0 Z.add Z.mul (mkL [2; 3]%nat LC [1; 3; 5; 2; 4; 6]) (mkL [2; 3]%nat LF [1; 0; 0; 1; 2; -1]) = 9 /\
  dotv 0 Z.add Z.mul [1; 3; 5; 2; 4; 6] [1; 0; 0; 1; 2; -1] = 5.
Proof. split; reflexivity. Qed.
