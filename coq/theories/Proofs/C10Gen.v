(* Proofs/C10Gen.v — tie of C10's hand model of hosvd's mode loop (Model/C10Loop.v hosvd_loop) to the translator-GENERATED skeleton
   of the same loop (Gen/GenHosvd.v, regenerated from /repo/pyttb/hosvd.py `for k in dimorder:` by tools/pyx2v_skel.py on every run;
   w4-skel's bridge Proofs/W4SHosvd.v: generated loop = h_loop, generated rank expression = Model.C10Tucker.auto_rank).
   * gen_loop_is_hand_loop : the generated loop IS hosvd_loop with the oracles read off the generated kernels
       eigvals Y k   := k_take D (k_argsort_desc D)                          for (D, V) = k_eigh (k_gram (k_unfold Y k))
       leading Y k r := k_select_cols V (keep_cols r (k_argsort_desc D))
       ttm_t Y U k   := the shrink kernel (contract: k_shrink Y factor_matrices k reads only factor_matrices[k])
     whenever every mode of the order is a valid position of ranks / factor_matrices (what hosvd's dimorder check guarantees)
   * gen_hosvd_bookkeeping : hence C10_hosvd_bookkeeping (every mode treated once on the tensor seen at its position, rank = request or
     rule, factor = leading block, final Y = the shrunk tensor) holds for what the GENERATED function returns.
   An edit of the loop in /repo (rank expression, slice, order of shrink / factor assignment) changes Gen/GenHosvd.v and breaks these proofs. *)
From Coq Require Import String List Arith Bool Lia Permutation.
From PV Require Import Model.Sparse Model.W4SPrelude Gen.GenHosvd Model.C10Tucker Model.C10Loop Proofs.C10LoopProofs Proofs.W4SHosvd.
Import ListNotations.
Local Open Scope nat_scope.

Lemma sk_set_upd {A} (l : list A) : forall k v, k < length l -> sk_set l k v = Some (upd l k v).
Proof.
  intros k v H. unfold sk_set. apply Nat.ltb_lt in H. rewrite H. apply Nat.ltb_lt in H. f_equal.
  revert k H. induction l as [|x l IH]; intros [|k] H; cbn in H; try lia; [reflexivity|].
  cbn. f_equal. apply IH. lia.
Qed.

Lemma nth_error_upd_same {A} (l : list A) : forall k v, k < length l -> nth_error (upd l k v) k = Some v.
Proof. induction l as [|x l IH]; intros [|k] v H; cbn in H; try lia; [reflexivity|]. cbn. apply IH. lia. Qed.

Lemma upd_same {A} (l : list A) : forall k v, nth_error l k = Some v -> upd l k v = l.
Proof.
  induction l as [|x l IH]; intros [|k] v H; cbn in H; try discriminate.
  - inversion H; reflexivity.
  - cbn. f_equal. now apply IH.
Qed.

Section GenBridge.
Variables T_V T_Tensor T_Mat : Type.
Variable c_leV : T_V -> T_V -> bool.
Variable c_zeroV : T_V.
Variable c_addV : T_V -> T_V -> T_V.
Variable k_unfold : T_Tensor -> nat -> T_Mat.
Variable k_gram : T_Mat -> T_Mat.
Variable k_eigh : T_Mat -> list T_V * T_Mat.
Variable k_argsort_desc : list T_V -> list nat.
Variable k_take : list T_V -> list nat -> list T_V.
Variable k_select_cols : T_Mat -> list nat -> T_Mat.
Variable k_shrink : T_Tensor -> list T_Mat -> nat -> T_Tensor.
(* `Y.ttm(factor_matrices[k].transpose(), int(k))` reads entry k of the list only *)
Variable shrink1 : T_Tensor -> T_Mat -> nat -> T_Tensor.
Hypothesis shrink_reads_k : forall Y fm k U, nth_error fm k = Some U -> k_shrink Y fm k = shrink1 Y U k.

Notation gloop := (GenHosvd.hosvd_modes_loop1 T_V T_Tensor T_Mat c_leV c_zeroV c_addV k_unfold k_gram k_eigh k_argsort_desc k_take
  k_select_cols k_shrink).
Notation gmodes := (GenHosvd.hosvd_modes T_V T_Tensor T_Mat c_leV c_zeroV c_addV k_unfold k_gram k_eigh k_argsort_desc k_take
  k_select_cols k_shrink).
Notation spectrum := (mode_spectrum T_V T_Tensor T_Mat k_unfold k_gram k_eigh k_argsort_desc k_take).

(* the oracles of Model/C10Loop.v read off the generated kernels *)
Definition g_eigvals (Y : T_Tensor) (k : nat) : list T_V := fst (fst (spectrum Y k)).
Definition g_leading (Y : T_Tensor) (k r : nat) : T_Mat :=
  let '(_, p, Vm) := spectrum Y k in k_select_cols Vm (keep_cols r p).
Notation hloop := (hosvd_loop T_Tensor T_Mat T_V c_zeroV c_addV (lt_of c_leV) g_eigvals g_leading shrink1).

Definition swap3 (r : option (list nat * list T_Mat * T_Tensor)) : option (T_Tensor * list T_Mat * list nat) :=
  match r with Some (ranks, Us, Y) => Some (Y, Us, ranks) | None => None end.

Theorem gen_loop_is_hand_loop (t : T_V) (sq : bool) : forall order ranks fm Y,
  (forall k, In k order -> k < length ranks) -> length fm = length ranks ->
  gloop t sq order (Y, fm, ranks) = swap3 (hloop sq t order ranks fm Y).
Proof.
  intros order ranks fm Y. rewrite (hosvd_loop_bridge T_V T_Tensor T_Mat c_leV c_zeroV c_addV k_unfold k_gram k_eigh
    k_argsort_desc k_take k_select_cols k_shrink).
  revert ranks fm Y. induction order as [|k order IH]; intros ranks fm Y Hin Hl; [reflexivity|].
  assert (Hk : k < length ranks) by (apply Hin; now left).
  cbn [h_loop hosvd_loop]. unfold g_eigvals, g_leading.
  destruct (spectrum Y k) as [[eig p] Vm] eqn:E. cbn [fst].
  unfold h_rank_step. rewrite (nth_error_nth' ranks 0 Hk).
  destruct (nth k ranks 0) as [|n] eqn:Erk; cbn [Nat.eqb].
  - destruct (auto_rank c_zeroV c_addV (lt_of c_leV) eig t) as [r|]; [|reflexivity].
    rewrite (sk_set_upd ranks k r Hk). rewrite (nth_error_upd_same ranks k r Hk).
    rewrite (sk_set_upd fm k _ ltac:(lia)).
    rewrite IH.
    + destruct sq; [|reflexivity].
      rewrite (shrink_reads_k Y _ k (k_select_cols Vm (keep_cols r p))) by (apply nth_error_upd_same; lia). reflexivity.
    + intros k' Hk'. rewrite upd_length. apply Hin. now right.
    + now rewrite !upd_length.
  - rewrite (nth_error_nth' ranks 0 Hk), Erk.
    rewrite (sk_set_upd fm k _ ltac:(lia)).
    rewrite (upd_same ranks k (S n)) by (rewrite (nth_error_nth' ranks 0 Hk), Erk; reflexivity).
    rewrite IH.
    + destruct sq; [|reflexivity].
      rewrite (shrink_reads_k Y _ k (k_select_cols Vm (keep_cols (S n) p))) by (apply nth_error_upd_same; lia). reflexivity.
    + intros k' Hk'. apply Hin. now right.
    + now rewrite upd_length.
Qed.

(* C10_hosvd_bookkeeping over the GENERATED function: dimorder a permutation of range(d) (hosvd's check), ranks / factor_matrices of length d *)
Theorem gen_hosvd_bookkeeping (fac0 : T_Mat) (t : T_V) (sq : bool) (d : nat) (dimorder ranks : list nat) (fm0 : list T_Mat) (X : T_Tensor)
    (fm : list T_Mat) (ranks' : list nat) (Y' : T_Tensor) :
  Permutation dimorder (seq 0 d) -> length ranks = d -> length fm0 = d ->
  gmodes dimorder ranks t X fm0 sq = Some (fm, ranks', Y') ->
  length fm = d /\ length ranks' = d /\
  (forall k, k < d -> exists pre post, dimorder = pre ++ k :: post /\
      let Yk := seen T_Tensor T_Mat shrink1 fac0 sq fm pre X in
      nth k fm fac0 = g_leading Yk k (nth k ranks' 0) /\
      rank_decided T_Tensor T_V c_zeroV c_addV (lt_of c_leV) g_eigvals t (nth k ranks 0) Yk k (nth k ranks' 0)) /\
  Y' = seen T_Tensor T_Mat shrink1 fac0 sq fm dimorder X.
Proof.
  intros Hp Hr Hf H. unfold GenHosvd.hosvd_modes in H.
  destruct (perm_range d dimorder Hp) as (Hnd & Hin & _).
  rewrite gen_loop_is_hand_loop in H by (try lia; intros k Hk; rewrite Hr; now apply Hin).
  destruct (hloop sq t dimorder ranks fm0 X) as [[[r1 U1] Y1]|] eqn:E; cbn [swap3] in H; [|discriminate].
  inversion H; subst fm ranks' Y'. clear H.
  destruct (hosvd_loop_inv T_Tensor T_Mat T_V c_zeroV c_addV (lt_of c_leV) g_eigvals g_leading shrink1 fac0 sq t
              dimorder ranks fm0 X r1 U1 Y1 d Hnd (fun k Hk => proj1 (Hin k) Hk) Hr Hf E) as (L1 & L2 & _ & Hk & HY).
  split; [exact L2|]. split; [exact L1|]. split; [|exact HY].
  intros k Hkd. apply Hk. now apply Hin.
Qed.
End GenBridge.
