(* Proofs/C20TeneyeEntry.v — entries of teneye for EVERY order: zero when a value occurs an odd number of times, one on the
   super-diagonal; the closed form C20Gen.teneye_formula agrees with pyttb's count on these classes and for orders 2 and 4.
   The general statement is teneye_entry_formula_stmt (NOT proved; compared on every generated teneye case). *)
From Coq Require Import List Arith ZArith Lia Bool Permutation.
From PV Require Import Base.Index Base.Perm Base.Sum Np.Array Model.Sparse Model.Repr Model.C20Gen Proofs.C20Proofs Proofs.C20TeneyeGen.
Import ListNotations.

Local Notation cnt := (count_occ Nat.eq_dec).

(* consecutive pairs equal: every value occurs an even number of times *)
Lemma cmatch_even_occ l : cmatch l = true -> forall v, Nat.even (cnt l v) = true.
Proof.
  induction l as [| a | a b r IH] using list_pair_ind; intros H v.
  - reflexivity.
  - discriminate.
  - cbn [cmatch] in H. apply andb_true_iff in H as [Hab Hr]. apply Nat.eqb_eq in Hab. subst b.
    cbn [count_occ]. destruct (Nat.eq_dec a v); [|now apply IH]. cbn [Nat.even]. now apply IH.
Qed.

Lemma filter_none {A} (f : A -> bool) l : (forall x, In x l -> f x = false) -> filter f l = [].
Proof.
  induction l as [|a l IH]; intros H; [reflexivity|]. cbn [filter]. rewrite (H a (or_introl eq_refl)).
  apply IH. intros x Hx. apply H. now right.
Qed.
Lemma filter_all {A} (f : A -> bool) l : (forall x, In x l -> f x = true) -> filter f l = l.
Proof.
  induction l as [|a l IH]; intros H; [reflexivity|]. cbn [filter]. rewrite (H a (or_introl eq_refl)).
  f_equal. apply IH. intros x Hx. apply H. now right.
Qed.

(* every rearrangement pyttb inspects has the multiplicities of the subscript itself *)
Lemma pairs_match_even_occ i p : 2 <= length i -> Nat.even (length i) = true -> In p (perms i) ->
  pairs_match p = true -> forall v, Nat.even (cnt i v) = true.
Proof.
  intros Hm He Hp Hpm v. apply perms_perm in Hp. pose proof (Permutation_length Hp) as HL.
  rewrite pairs_match_rot in Hpm by (rewrite HL; auto).
  pose proof (cmatch_even_occ _ Hpm v) as Hev.
  assert (Hperm : Permutation (pick 0 (rho (length p)) p) i).
  { etransitivity; [|exact Hp]. apply pick_Permutation. apply rho_is_perm. lia. }
  now rewrite (proj1 (Permutation_count_occ Nat.eq_dec _ _) Hperm v) in Hev.
Qed.

(* a value of ODD multiplicity: the entry is zero - every even order, every size *)
Theorem teneye_count_odd i v : 2 <= length i -> Nat.even (length i) = true ->
  Nat.even (cnt i v) = false -> teneye_count i = 0.
Proof.
  intros Hm He Hodd. unfold teneye_count. rewrite filter_none; [reflexivity|].
  intros p Hp. destruct (pairs_match p) eqn:E; [|reflexivity].
  rewrite (pairs_match_even_occ i p Hm He Hp E v) in Hodd. discriminate.
Qed.

(* the super-diagonal: all m! rearrangements match, the entry is m!/m! = 1 - every order, every size *)
Lemma pairs_match_repeat a m : pairs_match (repeat a m) = true.
Proof.
  unfold pairs_match. cbv zeta. rewrite repeat_length. apply forallb_forall. intros j Hj. apply in_seq in Hj.
  destruct m as [|m']; [cbn in Hj; lia|]. set (m := S m') in *.
  pose proof (Nat.mul_div_le m 2 ltac:(lia)) as Hle.
  rewrite !(nth_repeat_lt a 0 m); [apply Nat.eqb_refl|lia|]. apply Nat.mod_upper_bound. lia.
Qed.

Theorem teneye_count_diag a m : teneye_count (repeat a m) = fact m.
Proof.
  unfold teneye_count. rewrite filter_all.
  - rewrite perms_length, repeat_length. reflexivity.
  - intros p Hp. apply perms_perm in Hp.
    assert (HF : Forall (eq a) p).
    { eapply Permutation_Forall; [symmetry; exact Hp|]. apply Forall_forall. intros x Hx. symmetry. eapply repeat_spec, Hx. }
    rewrite (Forall_eq_repeat HF). apply pairs_match_repeat.
Qed.

(* ---------------------------------------------------------------- the closed form on these classes *)
Lemma teneye_formula_odd i v : Nat.even (cnt i v) = false -> teneye_formula i = 0.
Proof.
  intros Hodd. unfold teneye_formula. cbv zeta.
  assert (Hin : In v (nodup Nat.eq_dec i)).
  { apply nodup_In. apply (count_occ_In Nat.eq_dec). destruct (cnt i v); [discriminate|lia]. }
  destruct (forallb _ _) eqn:E; [|reflexivity].
  rewrite forallb_forall in E. rewrite (E v Hin) in Hodd. discriminate.
Qed.

Lemma nodup_repeat a m : nodup Nat.eq_dec (repeat a (S m)) = [a].
Proof.
  induction m as [|m IH]; [reflexivity|]. change (repeat a (S (S m))) with (a :: repeat a (S m)).
  cbn [nodup]. destruct (in_dec Nat.eq_dec a (repeat a (S m))) as [_|H]; [exact IH|]. exfalso. apply H. now left.
Qed.

(* m! = m!! (m-1)!!  for even m, with m!! = 2^(m/2) (m/2)! *)
Lemma fact_split k : fact (2 * k) = 2 ^ k * fact k * oddfact (2 * k).
Proof.
  induction k as [|k IH]; [reflexivity|].
  replace (2 * S k) with (S (S (2 * k))) by lia. cbn [oddfact].
  change (fact (S (S (2 * k)))) with (S (S (2 * k)) * (S (2 * k) * fact (2 * k))).
  rewrite IH. cbn [Nat.pow fact]. nia.
Qed.

Lemma teneye_formula_diag a m : Nat.even m = true -> teneye_formula (repeat a m) = fact m.
Proof.
  intros He. destruct m as [|m]; [reflexivity|].
  unfold teneye_formula. cbv zeta. rewrite nodup_repeat, repeat_length. cbn [forallb map fold_right].
  rewrite (count_occ_repeat_eq Nat.eq_dec (S m) eq_refl), He. cbn [andb].
  apply Nat.even_spec in He as [k Hk]. rewrite Hk. replace (2 * k / 2) with k by (rewrite Nat.mul_comm, Nat.div_mul; lia).
  rewrite fact_split. lia.
Qed.

(* ---------------------------------------------------------------- orders 2 and 4: every subscript *)
Ltac dec_all := repeat match goal with
  | |- context [Nat.eq_dec ?x ?y] => destruct (Nat.eq_dec x y); subst; try congruence; cbn
  | |- context [Nat.eqb ?x ?y] => destruct (Nat.eqb_spec x y); subst; try congruence; cbn
  end.

Lemma teneye_formula_2 a b : teneye_count [a; b] = teneye_formula [a; b].
Proof. rewrite teneye_count_2. unfold teneye_formula. cbn. timeout 60 dec_all; try reflexivity; try lia. Qed.

Lemma teneye_formula_4 a b c d : teneye_count [a; b; c; d] = teneye_formula [a; b; c; d].
Proof. rewrite teneye_count_4. unfold teneye_formula. cbn. timeout 250 dec_all; try reflexivity; try lia. Qed.

(* ---------------------------------------------------------------- the general statement and what is proved of it *)
Definition teneye_entry_formula_stmt : Prop :=
  forall i : idx, Nat.even (length i) = true -> teneye_count i = teneye_formula i.

(* proved: every subscript of order <= 4; for EVERY even order the subscripts with a value of odd multiplicity (both sides
   zero) and the constant subscripts (both sides m!) *)
Theorem teneye_entry_formula_partial (i : idx) : Nat.even (length i) = true ->
  length i <= 4 \/ (exists v, Nat.even (cnt i v) = false) \/ (exists a, i = repeat a (length i)) ->
  teneye_count i = teneye_formula i.
Proof.
  intros He [H4|[[v Hv]|[a Ha]]].
  - destruct i as [|a [|b [|c [|d [|e r]]]]]; cbn in He, H4; try discriminate; try lia.
    + reflexivity.
    + apply teneye_formula_2.
    + apply teneye_formula_4.
  - rewrite (teneye_formula_odd i v Hv). apply (teneye_count_odd i v); auto.
    destruct i as [|x [|y r]]; cbn in *; try discriminate; lia.
  - rewrite Ha. rewrite teneye_count_diag, teneye_formula_diag; auto.
Qed.

(* a TEST of the general statement (not a proof): every subscript of order 2, 4 (sizes <= 3) and 6 (size 2) *)
Example teneye_entry_formula_samples :
  forallb (fun mn => forallb (fun i => teneye_count i =? teneye_formula i) (allsubs (repeat (snd mn) (fst mn))))
          [(2, 3); (4, 3); (6, 2); (0, 2)] = true.
Proof. vm_compute. reflexivity. Qed.

Example teneye_entries_example :
  map teneye_count [[0; 1; 1; 1; 0; 0]; [1; 1; 1; 1; 1; 1]; [1; 0; 1; 1; 0; 1]] = [0; 720; 144] /\
  map teneye_formula [[0; 1; 1; 1; 0; 0]; [1; 1; 1; 1; 1; 1]; [1; 0; 1; 1; 0; 1]] = [0; 720; 144] /\
  forallb (fun mn => forallb (fun i => teneye_count i =? teneye_formula i) (allsubs (repeat (snd mn) (fst mn))))
          [(2, 3); (4, 3); (6, 2); (0, 2)] = true.
Proof. split; [vm_compute; reflexivity|split; [vm_compute; reflexivity|exact teneye_entry_formula_samples]]. Qed.
