(* Proofs/C14GramT.v — C14_gram_tucker: the matrix ttensor.nvecs hands to the eigen solver, Y = H_(n) (U_n G_(n))^T with
   H = core x_m (U_m^T U_m) (m <> n) x_n U_n, is gram_spec of the denotation den_t — every shape, core shape, mode, ring. *)
From Coq Require Import List Arith Lia Bool Ring.
From PV Require Import Base.Index Base.Sum Np.Array Model.Sparse Model.Repr Model.C14Nvecs Model.C14Gram
                       Proofs.C14Sums Proofs.C14Split Proofs.C14GramSp.
Import ListNotations.

Section GramTucker.
Variable V : Type.
Variables (v0 v1 : V) (vadd vmul vsub : V -> V -> V) (vopp : V -> V).
Hypothesis Vring : ring_theory v0 v1 vadd vmul vsub vopp (@eq V).
Add Ring Vr14t : Vring.
Notation "x + y" := (vadd x y).
Notation "x * y" := (vmul x y).
Notation SO := (sum_over v0 vadd).
Notation SN := (sum_n v0 vadd).
Notation tp := (tprod v0 v1 vmul).
Notation mg := (mget v0).
Notation mat := (list (list V)).
Notation UTU := (utu v0 vadd vmul).

Lemma tprod_insert n : forall (Us : list mat) (i j : idx) a, n < length Us -> n <= length i -> n < length j ->
  tp Us (insert_at n a i) j = mg (nth n Us []) a (nth n j 0) * tp (remove_nth n Us) i (remove_nth n j).
Proof.
  induction n as [|n IH]; intros [|U Us] i [|y j] a HU Hi Hj; cbn in HU, Hj; try lia.
  - reflexivity.
  - destruct i as [|x i]; cbn in Hi; [lia|].
    rewrite insert_at_S, !remove_nth_S. cbn [tprod nth]. rewrite IH by lia. ring.
Qed.

Lemma tucker_vs_facts n : forall (Us : list mat), n < length Us ->
  nth n (tucker_vs v0 vadd vmul Us n) [] = nth n Us [] /\
  remove_nth n (tucker_vs v0 vadd vmul Us n) = map UTU (remove_nth n Us) /\
  length (tucker_vs v0 vadd vmul Us n) = length Us.
Proof.
  induction n as [|n IH]; intros [|U Us] H; cbn in H; try lia.
  - cbn [tucker_vs nth length]. rewrite map_length. repeat split; reflexivity.
  - cbn [tucker_vs nth length]. rewrite !remove_nth_S. destruct (IH Us ltac:(lia)) as (H1 & H2 & H3).
    rewrite H1, H2, H3. repeat split; reflexivity.
Qed.

Lemma nrows_utu (U : mat) : nrows (UTU U) = ncols U.
Proof. unfold nrows, utu, mtab. now rewrite map_length, seq_length. Qed.

Lemma sum_over_mul_sum {A B} (la : list A) (lb : list B) (p : A -> V) (q : B -> V) :
  SO la p * SO lb q = SO la (fun x => SO lb (fun y => p x * q y)).
Proof.
  rewrite <- (sum_over_scale_r V v0 v1 vadd vmul vsub vopp Vring). apply sum_over_ext. intros x _.
  now rewrite (sum_over_scale_l V v0 v1 vadd vmul vsub vopp Vring).
Qed.

Lemma inb_nil_inv (p : idx) : inb [] p = true -> p = [].
Proof. destruct p; [reflexivity|discriminate]. Qed.

(* sum over the row subscripts of a product of two column selections = product of the factor Gram matrices *)
Lemma tprod_gram : forall (Us : list mat) (p q : idx),
  inb (map (@ncols V) Us) p = true -> inb (map (@ncols V) Us) q = true ->
  SO (allsubs (map (@nrows V) Us)) (fun i => tp Us i p * tp Us i q) = tp (map UTU Us) p q.
Proof.
  induction Us as [|U Us IH]; intros p q Hp Hq.
  - cbn [map] in *. apply inb_nil_inv in Hp, Hq. subst. unfold allsubs. cbn. ring.
  - destruct p as [|p0 p]; [discriminate|]. destruct q as [|q0 q]; [discriminate|].
    cbn [map inb] in Hp, Hq. apply andb_true_iff in Hp as [Hp0 Hp]. apply andb_true_iff in Hq as [Hq0 Hq].
    apply Nat.ltb_lt in Hp0, Hq0.
    cbn [map]. rewrite (sum_allsubs_cons V v0 v1 vadd vmul vsub vopp Vring). cbn [tprod].
    rewrite (sum_over_ext _ _ _ _ _ (fun i => SN (nrows U) (fun x => mg U x p0 * mg U x q0) * (tp Us i p * tp Us i q))).
    2:{ intros i _. unfold sum_n. rewrite <- (sum_over_scale_r V v0 v1 vadd vmul vsub vopp Vring).
        apply sum_over_ext. intros x _. ring. }
    rewrite (sum_over_scale_l V v0 v1 vadd vmul vsub vopp Vring). rewrite IH by auto.
    f_equal. unfold utu. rewrite (mget_mtab V v0) by auto. unfold nrows.
    rewrite (sum_over_nth V v0 vadd []). reflexivity.
Qed.

Lemma nth_map_nrows n (Us : list mat) : nth n (map (@nrows V) Us) 0 = nrows (nth n Us []).
Proof. change 0 with (nrows (V:=V) []). now rewrite (map_nth (@nrows V)). Qed.

Definition wf_tucker (T : ttensor V) : Prop :=
  length (dshape (tcore T)) = length (tfactors T) /\
  map (@ncols V) (tfactors T) = dshape (tcore T).

Theorem gram_tucker (T : ttensor V) (n a b : nat) : wf_tucker T -> n < length (tfactors T) ->
  a < nrows (nth n (tfactors T) []) -> b < nrows (nth n (tfactors T) []) ->
  mg (gram_t_impl v0 v1 vadd vmul T n) a b = gram_spec v0 vadd vmul (tshape T) (den_t v0 v1 vadd vmul T) n a b.
Proof.
  intros (HN & HJ) Hn Ha Hb.
  set (Us := tfactors T) in *. set (J := dshape (tcore T)) in *. set (G := den_dense v0 (tcore T)).
  set (Un := nth n Us []) in *. set (Us' := remove_nth n Us). set (W := tp (map UTU Us')).
  set (al := fun (x : nat) (j : idx) => G j * mg Un x (nth n j 0)).
  assert (HnJ : n < length J) by lia.
  assert (Hs : tshape T = map (@nrows V) Us) by reflexivity.
  assert (Hrs : remove_nth n (tshape T) = map (@nrows V) Us') by (rewrite Hs; apply remove_nth_map).
  assert (HJ' : map (@ncols V) Us' = remove_nth n J) by (unfold Us'; rewrite <- HJ; symmetry; apply remove_nth_map).
  assert (Hrem : forall j, inb J j = true -> inb (map (@ncols V) Us') (remove_nth n j) = true).
  { intros j Hj. rewrite HJ'. now apply inb_remove. }
  (* both sides equal  sum_{j'} sum_j al a j * al b j' * W (rem j') (rem j) *)
  transitivity (SO (allsubs J) (fun j' => SO (allsubs J) (fun j => al a j * al b j' * W (remove_nth n j') (remove_nth n j)))).
  - (* the code's matrix *)
    unfold gram_t_impl. fold Us J Un G. rewrite (mget_mtab V v0) by auto.
    destruct (tucker_vs_facts n Us Hn) as (V1 & V2 & V3).
    assert (HH : forall c, In c (allsubs (remove_nth n J)) ->
              tucker_H v0 v1 vadd vmul T n (insert_at n a c) = SO (allsubs J) (fun j => al a j * W c (remove_nth n j))).
    { intros c Hc. apply in_allsubs in Hc. pose proof (inb_length _ _ Hc) as Lc. rewrite remove_nth_length in Lc by auto.
      unfold tucker_H, den_t. cbn [tcore tfactors]. unfold tshape. cbn [tfactors]. fold Us J.
      assert (Hin : inb (map (@nrows V) (tucker_vs v0 vadd vmul Us n)) (insert_at n a c) = true).
      { apply inb_insert; unfold matrix in *.
        - rewrite map_length. exact (eq_ind_r (fun k => n < k) Hn V3).
        - rewrite nth_map_nrows, V1. exact Ha.
        - rewrite remove_nth_map, V2, map_map.
          rewrite (map_ext (fun x : list (list V) => nrows (UTU x)) (@ncols V)) by (intros U; apply nrows_utu).
          fold Us'. now rewrite HJ'. }
      rewrite Hin. apply sum_over_ext. intros j Hj. apply in_allsubs in Hj. pose proof (inb_length _ _ Hj) as Lj.
      rewrite (tprod_insert n (tucker_vs v0 vadd vmul Us n) c j a (eq_ind_r (fun k => n < k) Hn V3) ltac:(lia) ltac:(lia)).
      rewrite V1, V2. change (tp (map UTU (remove_nth n Us)) c (remove_nth n j)) with (W c (remove_nth n j)). change (nth n Us []) with Un. unfold al, G. ring. }
    set (h := fun j' => SO (allsubs J) (fun j => al a j * W (remove_nth n j') (remove_nth n j)) * al b j').
    transitivity (SO (allsubs J) h).
    2:{ apply sum_over_ext. intros j' _. unfold h. rewrite <- (sum_over_scale_r V v0 v1 vadd vmul vsub vopp Vring).
        apply sum_over_ext. intros j _. ring. }
    rewrite (sum_allsubs_split V v0 v1 vadd vmul vsub vopp Vring J n h HnJ). unfold sum_n.
    rewrite (sum_over_swap V v0 v1 vadd vmul vsub vopp Vring (seq 0 (nth n J 0)) (allsubs (remove_nth n J))).
    apply sum_over_ext. intros c Hc. rewrite (HH c Hc). apply in_allsubs in Hc. pose proof (inb_length _ _ Hc) as Lc.
    rewrite remove_nth_length in Lc by auto.
    rewrite <- (sum_over_scale_l V v0 v1 vadd vmul vsub vopp Vring). apply sum_over_ext. intros q _.
    unfold h. rewrite remove_insert by lia. unfold al. rewrite nth_insert_at by lia. fold G. ring.
  - (* the Gram matrix of the denotation *)
    symmetry. unfold gram_spec. rewrite Hrs.
    assert (HX : forall x i, x < nrows Un -> In i (allsubs (map (@nrows V) Us')) ->
              den_t v0 v1 vadd vmul T (insert_at n x i) = SO (allsubs J) (fun j => al x j * tp Us' i (remove_nth n j))).
    { intros x i Hx Hi. apply in_allsubs in Hi. pose proof (inb_length _ _ Hi) as Li.
      rewrite map_length in Li. unfold Us' in Li. rewrite remove_nth_length in Li by auto.
      unfold den_t. fold Us J G.
      assert (Hin : inb (tshape T) (insert_at n x i) = true).
      { apply inb_insert; unfold matrix in *.
        - rewrite Hs, map_length. exact Hn.
        - rewrite Hs, nth_map_nrows. exact Hx.
        - now rewrite Hrs. }
      rewrite Hin. apply sum_over_ext. intros j Hj. apply in_allsubs in Hj. pose proof (inb_length _ _ Hj) as Lj.
      fold J in Lj. rewrite tprod_insert by (unfold matrix in *; lia). change (nth n Us []) with Un. change (remove_nth n Us) with Us'. unfold al. ring. }
    rewrite (sum_over_ext _ _ _ _ _ (fun i => SO (allsubs J) (fun j' => SO (allsubs J) (fun j =>
               al a j * al b j' * (tp Us' i (remove_nth n j') * tp Us' i (remove_nth n j)))))).
    2:{ intros i Hi. rewrite (HX a i Ha Hi), (HX b i Hb Hi). rewrite sum_over_mul_sum.
        rewrite (sum_over_swap V v0 v1 vadd vmul vsub vopp Vring).
        apply sum_over_ext. intros j' _. apply sum_over_ext. intros j _. ring. }
    rewrite (sum_over_swap V v0 v1 vadd vmul vsub vopp Vring). apply sum_over_ext. intros j' Hj'.
    rewrite (sum_over_swap V v0 v1 vadd vmul vsub vopp Vring). apply sum_over_ext. intros j Hj.
    rewrite (sum_over_scale_l V v0 v1 vadd vmul vsub vopp Vring). f_equal.
    apply in_allsubs in Hj, Hj'. unfold W. apply tprod_gram; auto.
Qed.

End GramTucker.

Example gram_tucker_example :
  let T := mkT (mkDense [2; 1; 2] [1; 2; 0; 3]) [[[1; 0]; [2; 1]; [0; 1]]; [[2]; [1]]; [[1; 1]; [0; 2]]] in
  gram_t_impl 0 1 Nat.add Nat.mul T 0 = gram_matrix 0 Nat.add Nat.mul (tshape T) (den_t 0 1 Nat.add Nat.mul T) 0 /\
  gram_t_impl 0 1 Nat.add Nat.mul T 1 = gram_matrix 0 Nat.add Nat.mul (tshape T) (den_t 0 1 Nat.add Nat.mul T) 1 /\
  gram_t_impl 0 1 Nat.add Nat.mul T 2 = gram_matrix 0 Nat.add Nat.mul (tshape T) (den_t 0 1 Nat.add Nat.mul T) 2 /\
  gram_t_impl 0 1 Nat.add Nat.mul T 1 = [[588; 294]; [294; 147]].
Proof. repeat split; vm_compute; reflexivity. Qed.
