(* Props/C20Gen.v — property C20, tie A: the size / subscript / value checks of the aggregating sparse constructor
   (sptensor.from_aggregator, reached by sptendiag too) stated over tt_sizecheck / tt_subscheck / tt_valscheck of
   Gen/GenUtils3.v as regenerated from /repo/pyttb/pyttb_utils.py at run time: an edit of these helpers in /repo
   changes the generated text and breaks the proofs below.  Only statements, `exact`, Print Assumptions. *)
From Coq Require Import List ZArith Bool.
From PV Require Import Np.NpZ Np.NpZ2 Np.NpZ3 Gen.GenUtils3 Model.W3Utils Proofs.W3Laws.
From PV Require Import Base.Index Np.Array Model.Sparse Model.Repr Model.Harness Model.C20Gen Model.C20Harness Proofs.C20GenTie.
Import ListNotations.
Local Open Scope Z_scope.

(* tt_sizecheck(shape, False) on a tuple of Python ints raises exactly when a size is below one *)
Theorem C20_gen_sizecheck : forall s : list Z,
  tt_sizecheck (int_array [zlen s] s) false = if forallb (fun d => 0 <? d) s then Ok true else Err.
Proof. exact gen_sizecheck_ints. Qed.

(* from_aggregator with a shape: the size guard of the request model (C20_aggregator_request) IS the generated check *)
Theorem C20_aggregator_size_guard_gen : forall (s : list Z) (N : nat) (subs : list idx) (vals : list Z) (r : reducer),
  zaggregator_z (Some s) N subs vals r =
  match tt_sizecheck (int_array [zlen s] s) false with
  | Ok _ => zaggregator (Some (to_shape s)) N subs vals r
  | Err => None
  end.
Proof. exact aggregator_size_guard_gen. Qed.

(* sptendiag with a shape: its constructed shape max(N, dim) passes through the same generated check (C20_sptendiag_guard) *)
Theorem C20_sptendiag_size_guard_gen : forall e s : list Z,
  let cs := map (Z.max (Z.of_nat (length e))) s in
  zsptendiag_chk e s =
  match tt_sizecheck (int_array [zlen cs] cs) false with
  | Ok _ => Some (zsptendiag_z e (Some s))
  | Err => None
  end.
Proof. exact sptendiag_size_guard_gen. Qed.

(* the two checks the models leave out are passed by every model input: subscripts that are naturals (any r x c layout)
   and values laid out as a column; a value array that is not a column is rejected *)
Theorem C20_gen_subscheck_nat : forall (r c : Z) (flat : list nat),
  tt_subscheck (int_array [r; c] (map Z.of_nat flat)) false = Ok true.
Proof. exact subscheck_nat_gen. Qed.

Theorem C20_gen_valscheck_column : forall (n : Z) k d, tt_valscheck (mknd [n; 1] k d) false = Ok true.
Proof. exact valscheck_column_gen. Qed.

Theorem C20_gen_valscheck_not_column : forall (n c : Z) k d, n * c <> 0 -> c <> 1 -> tt_valscheck (mknd [n; c] k d) false = Err.
Proof. exact valscheck_not_column_gen. Qed.

Print Assumptions C20_gen_sizecheck.
Print Assumptions C20_aggregator_size_guard_gen.
Print Assumptions C20_sptendiag_size_guard_gen.
Print Assumptions C20_gen_subscheck_nat.
Print Assumptions C20_gen_valscheck_column.
Print Assumptions C20_gen_valscheck_not_column.

Example C20_gen_tie_example :
  zaggregator_z (Some [2; 0]) 2 [] [] RSum = None /\ tt_sizecheck (int_array [2] [2; 0]) false = Err /\
  tt_sizecheck (int_array [2] [2; 3]) false = Ok true /\
  zsptendiag_chk [] [0; 2] = None /\ zsptendiag_chk [5; 7] [0; -2] = Some (zsptendiag_z [5; 7] (Some [0; -2])) /\
  tt_subscheck (int_array [2; 2] (map Z.of_nat [0; 1; 2; 1]%nat)) false = Ok true /\
  tt_valscheck (int_array [2; 1] [3; 4]) false = Ok true /\ tt_valscheck (int_array [2; 3] [1; 2; 3; 2; 2; 2]) false = Err.
Proof. exact gen_tie_examples. Qed.
