(* Proofs/C14Split.v — ring-generic re-indexing lemmas shared by C14 (sparse / Tucker Gram matrices) and C11 (sparse Phi):
   * a sum over all subscripts splits along ANY mode n (outer sum over the mode-n subscript, inner over the others)
   * a sum over the subscripts of the other modes with mode n fixed = a sum over all subscripts with an indicator
   * a sum over all subscripts of a term that vanishes on zero values = the sum over the stored entries of a sparse tensor *)
From Coq Require Import List Arith Lia Bool Ring.
From PV Require Import Base.Index Base.Sum Np.Array Model.Sparse Model.Repr Model.C14Nvecs Proofs.C14Sums.
Import ListNotations.

Lemma insert_at_S n a x (i : list nat) : insert_at (S n) a (x :: i) = x :: insert_at n a i.
Proof. reflexivity. Qed.
Lemma remove_nth_S {A} n (x : A) l : remove_nth (S n) (x :: l) = x :: remove_nth n l.
Proof. reflexivity. Qed.

Lemma nth_insert_at n : forall (i : list nat) a, n <= length i -> nth n (insert_at n a i) 0 = a.
Proof.
  induction n as [|n IH]; intros i a H.
  - reflexivity.
  - destruct i as [|x i]; cbn in H; [lia|]. rewrite insert_at_S. cbn [nth]. apply IH. lia.
Qed.

Lemma remove_insert n : forall (i : list nat) a, n <= length i -> remove_nth n (insert_at n a i) = i.
Proof.
  induction n as [|n IH]; intros i a H.
  - reflexivity.
  - destruct i as [|x i]; cbn in H; [lia|]. rewrite insert_at_S, remove_nth_S. f_equal. apply IH. lia.
Qed.

Lemma insert_remove n : forall (j : list nat), n < length j -> insert_at n (nth n j 0) (remove_nth n j) = j.
Proof.
  induction n as [|n IH]; intros [|x j] H; cbn in H; try lia.
  - reflexivity.
  - rewrite remove_nth_S, insert_at_S. cbn [nth]. f_equal. apply IH. lia.
Qed.

Lemma length_insert_at n a (i : list nat) : length (insert_at n a i) = S (length i).
Proof.
  unfold insert_at. rewrite app_length. cbn [length]. rewrite <- (firstn_skipn n i) at 3. rewrite app_length. lia.
Qed.

Lemma inb_remove n : forall (s : shape) (j : idx), n < length s -> inb s j = true -> inb (remove_nth n s) (remove_nth n j) = true.
Proof.
  induction n as [|n IH]; intros [|d s] [|x j] Hn H; cbn in Hn; try lia; try discriminate.
  - cbn [inb] in H. apply andb_true_iff in H as [_ H]. exact H.
  - cbn [inb] in H. apply andb_true_iff in H as [Hx H]. rewrite !remove_nth_S. cbn [inb]. rewrite Hx. cbn. apply IH; auto. lia.
Qed.

Lemma inb_nth n : forall (s : shape) (j : idx), n < length s -> inb s j = true -> nth n j 0 < nth n s 0.
Proof.
  induction n as [|n IH]; intros [|d s] [|x j] Hn H; cbn in Hn; try lia; try discriminate;
    cbn [inb] in H; apply andb_true_iff in H as [Hx H].
  - cbn. now apply Nat.ltb_lt.
  - cbn [nth]. apply IH; auto. lia.
Qed.

Section Split.
Variable V : Type.
Variables (v0 v1 : V) (vadd vmul vsub : V -> V -> V) (vopp : V -> V).
Hypothesis Vring : ring_theory v0 v1 vadd vmul vsub vopp (@eq V).
Add Ring Vr14s : Vring.
Notation SO := (sum_over v0 vadd).
Notation SN := (sum_n v0 vadd).

Lemma sum_allsubs_split (s : shape) (n : nat) (h : idx -> V) : n < length s ->
  SO (allsubs s) h = SN (nth n s 0) (fun a => SO (allsubs (remove_nth n s)) (fun i => h (insert_at n a i))).
Proof.
  revert s h. induction n as [|n IH]; intros [|d s] h Hn; cbn in Hn; try lia.
  - rewrite (sum_allsubs_cons V v0 v1 vadd vmul vsub vopp Vring). change (remove_nth 0 (d :: s)) with s. cbn [nth].
    unfold sum_n. apply (sum_over_swap V v0 v1 vadd vmul vsub vopp Vring).
  - rewrite (sum_allsubs_cons V v0 v1 vadd vmul vsub vopp Vring).
    rewrite (IH s (fun i => SN d (fun x => h (x :: i)))) by lia.
    cbn [nth]. apply sum_n_ext. intros a _. rewrite remove_nth_S.
    rewrite (sum_allsubs_cons V v0 v1 vadd vmul vsub vopp Vring). apply sum_over_ext. intros i _.
    apply sum_n_ext. intros x _. now rewrite insert_at_S.
Qed.

Lemma sum_allsubs_fix (s : shape) (n a : nat) (h : idx -> V) : n < length s -> a < nth n s 0 ->
  SO (allsubs (remove_nth n s)) (fun i => h (insert_at n a i)) =
  SO (allsubs s) (fun j => if Nat.eqb (nth n j 0) a then h j else v0).
Proof.
  intros Hn Ha. rewrite (sum_allsubs_split s n _ Hn). unfold sum_n.
  rewrite (sum_over_single V v0 v1 vadd vmul vsub vopp Vring (seq 0 (nth n s 0)) a).
  - apply sum_over_ext. intros i Hi. apply in_allsubs, inb_length in Hi. rewrite remove_nth_length in Hi by auto.
    rewrite nth_insert_at by lia. now rewrite Nat.eqb_refl.
  - apply seq_NoDup.
  - apply in_seq. lia.
  - intros a' _ Hne. apply (sum_over_zero V v0 v1 vadd vmul vsub vopp Vring). intros i Hi.
    apply in_allsubs, inb_length in Hi. rewrite remove_nth_length in Hi by auto.
    rewrite nth_insert_at by lia. destruct (Nat.eqb_spec a' a); [contradiction|reflexivity].
Qed.

Variable isz : V -> bool.

(* Σ_i G (den i) i over all subscripts = Σ over the stored entries, whenever G vanishes on the value zero *)
Lemma sum_last_match_gen (s : shape) (G : V -> idx -> V) : (forall j, G v0 j = v0) -> forall es : list (idx * V),
  NoDup (map fst es) -> (forall e, In e es -> inb s (fst e) = true) ->
  SO (allsubs s) (fun i => G (last_match i es v0) i) = SO es (fun e => G (snd e) (fst e)).
Proof.
  intros HG. induction es as [|[j v] r IH]; intros Hnd Hb.
  - cbn [last_match]. rewrite sum_over_nil. apply (sum_over_zero V v0 v1 vadd vmul vsub vopp Vring). intros; apply HG.
  - cbn [map fst] in Hnd. inversion Hnd as [|? ? Hj Hnd']; subst.
    rewrite sum_over_cons. cbn [fst snd].
    rewrite <- IH by (auto; intros; apply Hb; cbn; auto).
    assert (Hjr : forall e, In e r -> fst e <> j).
    { intros e He E. apply Hj. rewrite <- E. now apply in_map. }
    assert (E : forall i, In i (allsubs s) ->
                G (last_match i ((j, v) :: r) v0) i =
                vadd (if idx_eqb i j then G v j else v0) (G (last_match i r v0) i)).
    { intros i _. cbn [last_match]. destruct (idx_eqb i j) eqn:Eij.
      - apply idx_eqb_spec in Eij. subst i. rewrite !last_match_notin by auto. rewrite HG. ring.
      - ring. }
    rewrite (sum_over_ext _ _ _ _ _ _ E). rewrite (sum_over_add V v0 v1 vadd vmul vsub vopp Vring). f_equal.
    rewrite (sum_over_single V v0 v1 vadd vmul vsub vopp Vring (allsubs s) j).
    + now rewrite idx_eqb_refl.
    + apply allsubs_NoDup.
    + apply in_allsubs. apply (Hb (j, v)). cbn; auto.
    + intros a _ Ha. now rewrite idx_eqb_neq.
Qed.

Lemma sum_sparse_gen (S : sparse V) (G : V -> idx -> V) : wf_sp isz S -> (forall j, G v0 j = v0) ->
  SO (allsubs (sshape S)) (fun j => G (den_sp v0 S j) j) = SO (entries S) (fun e => G (snd e) (fst e)).
Proof.
  intros (HL & Hn & Hb & _) HG. unfold den_sp. apply sum_last_match_gen; auto.
  - now rewrite map_fst_entries.
  - intros [j v] He. cbn. unfold entries in He. apply in_combine_l in He.
    rewrite Forall_forall in Hb. auto.
Qed.

(* the denotation of a well-formed sparse tensor as a sum over its stored entries *)
Lemma den_sp_as_sum (S : sparse V) (i : idx) : wf_sp isz S ->
  den_sp v0 S i = SO (entries S) (fun e => if idx_eqb (fst e) i then snd e else v0).
Proof.
  intros (HL & Hn & _ & _). unfold den_sp.
  assert (Hnd : NoDup (map fst (entries S))) by now rewrite map_fst_entries.
  clear HL Hn. induction (entries S) as [|[j v] r IH].
  - reflexivity.
  - cbn [map fst] in Hnd. inversion Hnd as [|? ? Hj Hnd']; subst.
    rewrite sum_over_cons. cbn [fst snd last_match].
    destruct (idx_eqb i j) eqn:Eij.
    + apply idx_eqb_spec in Eij. subst j. rewrite idx_eqb_refl.
      rewrite last_match_notin by (intros e He E; apply Hj; rewrite <- E; now apply in_map).
      rewrite (sum_over_zero V v0 v1 vadd vmul vsub vopp Vring); [ring|].
      intros [j' v'] He. cbn [fst snd]. destruct (idx_eqb j' i) eqn:E'; [|reflexivity].
      apply idx_eqb_spec in E'. subst j'. exfalso. apply Hj. change i with (fst (i, v')). now apply in_map.
    + assert (idx_eqb j i = false) as ->.
      { destruct (idx_eqb j i) eqn:E'; [|reflexivity]. apply idx_eqb_spec in E'. subst j. now rewrite idx_eqb_refl in Eij. }
      rewrite IH by auto. ring.
Qed.

End Split.
