(* Proofs/C12EstGrad.v — over the reals: the matrices fg_est.estimate returns (Model/C12Gcp.v est_G) are the exact partial
   derivatives of the estimated objective est_F in every factor-matrix entry, for EVERY sample set (repeated subscripts, any
   sample weights, any correction range) — the sampled counterpart of Proofs/C12TensorR.v (wave 4).
   estimate_helper reads only the factor matrices, so there is no condition on the component weights here. *)
From Coq Require Import List Arith Lia Bool Reals Lra.
From Coquelicot Require Import Coquelicot.
From PV Require Import Base.Index Base.Sum Np.Array Model.Sparse Model.Repr Model.C12Gcp Proofs.C12Tensor Proofs.C12TensorR.
Import ListNotations.
Local Open Scope R_scope.

Section EstGrad.

Notation matR := (list (list R)).
Notation msumR := (sum_over 0 Rplus).
Notation dkR := (den_k 0 1 Rplus Rmult).
Notation mgR := (mget 0).
Notation ksR := (kprod_skip 0 1 Rmult).
Notation fvR := (fac_val 0 1 Rplus Rmult).
Notation RSO_single := (sum_over_single R 0 1 Rplus Rmult Rminus Ropp RTheory).
Notation RSO_zero := (sum_over_zero R 0 1 Rplus Rmult Rminus Ropp RTheory).
Notation RSO_ext := (sum_over_ext R 0 Rplus).

(* the model value at subscript i is affine in entry (j, r) of the k-th factor, with slope [i_k = j] * prod_{l <> k} A_l[i_l, r] *)
Lemma model_value_derive (K : ktensor R) (k j r : nat) (i : idx) :
  (forall q, (q < krank K)%nat -> nth q (kweights K) 0 = 1) -> wf_k K ->
  (k < length (kfactors K))%nat -> (j < nrows (nth k (kfactors K) []))%nat -> (r < krank K)%nat ->
  inb (kshape K) i = true ->
  is_derive (fun t => dkR (kset R K k (mset (nth k (kfactors K) []) j r t)) i) (mgR (nth k (kfactors K) []) j r)
            (if Nat.eqb (nth k i 0%nat) j then ksR (kfactors K) i r k else 0).
Proof.
  intros Hw Hwf Hk Hj Hr Hi.
  set (A := nth k (kfactors K) []) in *.
  assert (Hrow : (r < length (nth j A []))%nat).
  { unfold wf_k in Hwf. rewrite Forall_forall in Hwf.
    assert (HA : In A (kfactors K)) by (apply nth_In; auto).
    specialize (Hwf A HA). rewrite Forall_forall in Hwf.
    rewrite (Hwf (nth j A [])) by (apply nth_In; exact Hj). exact Hr. }
  assert (Hsh : forall t, kshape (kset R K k (mset A j r t)) = kshape K).
  { intros t. apply kshape_kset. unfold nrows. rewrite mset_length. symmetry. apply nth_kshape. }
  apply (is_derive_ext (fun t => msumR (seq 0 (krank K)) (fun q =>
           nth q (kweights K) 0 * (mgR (mset A j r t) (nth k i 0%nat) q * ksR (kfactors K) i q k)))).
  { intros t. symmetry.
    apply (den_kset R 0 1 Rplus Rmult Rminus Ropp RTheory K k (mset A j r t) i Hk).
    rewrite Hsh. exact Hi. }
  match goal with |- is_derive _ _ ?d => replace d with (msumR (seq 0 (krank K)) (fun q =>
     if (Nat.eqb (nth k i 0%nat) j && Nat.eqb q r)%bool
     then nth q (kweights K) 0 * ksR (kfactors K) i q k else 0)) end.
  2:{ destruct (Nat.eqb (nth k i 0%nat) j); cbn [andb].
      - rewrite (RSO_single (seq 0 (krank K)) r).
        + rewrite Nat.eqb_refl, Hw by exact Hr. ring.
        + apply seq_NoDup.
        + apply in_seq. lia.
        + intros a _ Ha. apply Nat.eqb_neq in Ha. now rewrite Ha.
      - apply RSO_zero. reflexivity. }
  apply (is_derive_msum (seq 0 (krank K))
    (fun q t => nth q (kweights K) 0 * (mgR (mset A j r t) (nth k i 0%nat) q * ksR (kfactors K) i q k))).
  intros q _.
  apply (is_derive_ext (fun t => nth q (kweights K) 0 *
           ((if (Nat.eqb (nth k i 0%nat) j && Nat.eqb q r)%bool then t else mgR A (nth k i 0%nat) q)
            * ksR (kfactors K) i q k))).
  { intros t. now rewrite mget_mset by auto. }
  destruct (Nat.eqb (nth k i 0%nat) j && Nat.eqb q r)%bool.
  - auto_derive; [exact I | ring].
  - auto_derive; [exact I | ring].
Qed.

Definition rows_len (Rk : nat) (As : list matR) : Prop := List.Forall (fun A => List.Forall (fun row => length row = Rk) A) As.

(* the same for estimate_helper's model value (factor matrices only) *)
Lemma fac_val_derive (As : list matR) (Rk k j r : nat) (i : idx) :
  rows_len Rk As -> (k < length As)%nat -> (j < nrows (nth k As []))%nat -> (r < Rk)%nat ->
  inb (map (@nrows R) As) i = true ->
  is_derive (fun t => fvR (upd As k (mset (nth k As []) j r t)) Rk i) (mgR (nth k As []) j r)
            (if Nat.eqb (nth k i 0%nat) j then ksR As i r k else 0).
Proof.
  intros Hwf Hk Hj Hr Hi.
  set (K := mkK (repeat 1 Rk) As).
  assert (EK : krank K = Rk) by (unfold krank, K; cbn [kweights]; apply repeat_length).
  assert (Hsh : forall t, map (@nrows R) (upd As k (mset (nth k As []) j r t)) = map (@nrows R) As).
  { intros t. apply (kshape_kset R K k (mset (nth k As []) j r t)).
    unfold nrows. rewrite mset_length. symmetry. apply (nth_kshape R K k). }
  apply (is_derive_ext (fun t => dkR (kset R K k (mset (nth k (kfactors K) []) j r t)) i)).
  { intros t. unfold kset, K. cbn [kweights kfactors]. symmetry.
    apply (fac_val_den_k R 0 1 Rplus Rmult Rminus Ropp RTheory). rewrite Hsh. exact Hi. }
  apply (model_value_derive K k j r i).
  - intros q Hq. unfold K. cbn [kweights]. apply nth_repeat_lt. now rewrite <- EK.
  - unfold wf_k. rewrite EK. exact Hwf.
  - exact Hk.
  - exact Hj.
  - now rewrite EK.
  - exact Hi.
Qed.

Lemma upd_mset_same (As : list matR) k j r : upd As k (mset (nth k As []) j r (mgR (nth k As []) j r)) = As.
Proof. rewrite mset_same. now apply (upd_same _ _ _ []). Qed.

(* d/dt of the estimated objective with entry (j, r) of the k-th factor set to t, at the current entry value, is entry (j, r)
   of the k-th matrix of est_G: every sample set whose subscripts lie inside the model's shape, any sample values / weights, any
   correction range; the loss only has to be differentiable (with derivative g) at the model values attained at the samples *)
Theorem est_gradient_pointwise :
  forall (f g : R -> R -> R) (As : list matR) (Rk : nat) (subs : list idx) (xs ws : list R) (crng : list nat) (k j r : nat),
  (forall x i, In i subs -> is_derive (fun m => f x m) (fvR As Rk i) (g x (fvR As Rk i))) ->
  rows_len Rk As -> (k < length As)%nat -> (j < nrows (nth k As []))%nat -> (r < Rk)%nat ->
  List.Forall (fun i => inb (map (@nrows R) As) i = true) subs ->
  is_derive (fun t => est_F 0 1 Rplus Rmult Rminus f (upd As k (mset (nth k As []) j r t)) Rk subs xs ws crng)
            (mgR (nth k As []) j r)
            (mgR (nth k (est_G 0 1 Rplus Rmult Rminus g As Rk subs xs ws crng (map (@nrows R) As)) []) j r).
Proof.
  intros f g As Rk subs xs ws crng k j r Hfg Hwf Hk Hj Hr Hsubs.
  set (A := nth k As []) in *. set (a := mgR A j r).
  rewrite Forall_forall in Hsubs.
  set (Dd := fun i : idx => if Nat.eqb (nth k i 0%nat) j then ksR As i r k else 0).
  set (m0 := fun q : nat => fvR As Rk (nth q subs [])).
  (* the returned entry in sum form *)
  replace (mgR (nth k (est_G 0 1 Rplus Rmult Rminus g As Rk subs xs ws crng (map (@nrows R) As)) []) j r)
    with (msumR (seq 0 (length subs)) (fun q =>
            nth q ws 0 * (if inl q crng
                          then Dd (nth q subs []) * g (nth q xs 0) (m0 q) - Dd (nth q subs []) * g 0 (m0 q)
                          else Dd (nth q subs []) * g (nth q xs 0) (m0 q)))).
  2:{ unfold est_G. rewrite (nth_map_seq _ _ k []) by (now rewrite map_length).
      unfold est_Gk, mget.
      assert (Ej : nth k (map (@nrows R) As) 0%nat = nrows A).
      { change 0%nat with (@nrows R []) at 1. apply map_nth. }
      rewrite (nth_map_seq _ _ j []) by (rewrite Ej; exact Hj).
      rewrite (nth_map_seq _ _ r 0) by exact Hr.
      rewrite (sum_over_filter R 0 1 Rplus Rmult Rminus Ropp RTheory).
      apply RSO_ext. intros q Hq. apply in_seq in Hq.
      assert (Hin : In (nth q subs []) subs) by (apply nth_In; lia).
      rewrite (loo_is_kprod_skip R 0 1 Rplus Rmult Rminus Ropp RTheory)
        by (auto; rewrite (inb_length _ _ (Hsubs _ Hin)); apply map_length).
      unfold est_Y, est_m, Dd, m0.
      destruct (Nat.eqb (nth k (nth q subs []) 0%nat) j); destruct (inl q crng); ring. }
  unfold est_F.
  apply (is_derive_msum (seq 0 (length subs))
           (fun q t => nth q ws 0 *
              (if inl q crng
               then f (nth q xs 0) (est_m 0 1 Rplus Rmult (upd As k (mset A j r t)) Rk subs q)
                    - f 0 (est_m 0 1 Rplus Rmult (upd As k (mset A j r t)) Rk subs q)
               else f (nth q xs 0) (est_m 0 1 Rplus Rmult (upd As k (mset A j r t)) Rk subs q)))).
  intros q Hq. apply in_seq in Hq.
  assert (Hin : In (nth q subs []) subs) by (apply nth_In; lia).
  pose proof (Hsubs _ Hin) as Hi.
  assert (Hm : is_derive (fun t => est_m 0 1 Rplus Rmult (upd As k (mset A j r t)) Rk subs q) a (Dd (nth q subs []))).
  { unfold est_m. apply fac_val_derive; auto. }
  assert (E0 : est_m 0 1 Rplus Rmult (upd As k (mset A j r a)) Rk subs q = m0 q).
  { unfold est_m, m0, a, A. now rewrite upd_mset_same. }
  assert (Hc : forall x, is_derive (fun t => f x (est_m 0 1 Rplus Rmult (upd As k (mset A j r t)) Rk subs q)) a
                                   (Dd (nth q subs []) * g x (m0 q))).
  { intros x.
    apply (is_derive_comp (fun m => f x m) (fun t => est_m 0 1 Rplus Rmult (upd As k (mset A j r t)) Rk subs q) a).
    - cbv beta. rewrite E0. unfold m0. apply Hfg. exact Hin.
    - exact Hm. }
  apply is_derive_scal.
  destruct (inl q crng).
  - apply (is_derive_minus (V := R_NormedModule)); apply Hc.
  - apply Hc.
Qed.

(* for a loss differentiable everywhere *)
Theorem est_gradient :
  forall (f g : R -> R -> R) (As : list matR) (Rk : nat) (subs : list idx) (xs ws : list R) (crng : list nat) (k j r : nat),
  (forall x m, is_derive (fun m => f x m) m (g x m)) ->
  rows_len Rk As -> (k < length As)%nat -> (j < nrows (nth k As []))%nat -> (r < Rk)%nat ->
  List.Forall (fun i => inb (map (@nrows R) As) i = true) subs ->
  is_derive (fun t => est_F 0 1 Rplus Rmult Rminus f (upd As k (mset (nth k As []) j r t)) Rk subs xs ws crng)
            (mgR (nth k As []) j r)
            (mgR (nth k (est_G 0 1 Rplus Rmult Rminus g As Rk subs xs ws crng (map (@nrows R) As)) []) j r).
Proof. intros f g As Rk subs xs ws crng k j r Hfg. apply est_gradient_pointwise. intros x i _. apply Hfg. Qed.

(* domain-restricted: g is the derivative of f for model values >= lb (fg_setup's lower bound) and the model respects the bound at
   the sampled subscripts *)
Theorem est_gradient_lb :
  forall (lb : R) (f g : R -> R -> R) (As : list matR) (Rk : nat) (subs : list idx) (xs ws : list R) (crng : list nat) (k j r : nat),
  (forall x m, lb <= m -> is_derive (fun m => f x m) m (g x m)) ->
  (forall i, In i subs -> lb <= fvR As Rk i) ->
  rows_len Rk As -> (k < length As)%nat -> (j < nrows (nth k As []))%nat -> (r < Rk)%nat ->
  List.Forall (fun i => inb (map (@nrows R) As) i = true) subs ->
  is_derive (fun t => est_F 0 1 Rplus Rmult Rminus f (upd As k (mset (nth k As []) j r t)) Rk subs xs ws crng)
            (mgR (nth k As []) j r)
            (mgR (nth k (est_G 0 1 Rplus Rmult Rminus g As Rk subs xs ws crng (map (@nrows R) As)) []) j r).
Proof.
  intros lb f g As Rk subs xs ws crng k j r Hfg Hlb. apply est_gradient_pointwise. intros x i Hi. apply Hfg. now apply Hlb.
Qed.

End EstGrad.

(* non-vacuity: 2x3 rank-2 model, three samples (one subscript twice), correction range {0}, Gaussian loss: the hypotheses are satisfiable
   and the returned entry (k, j, r) = (1, 2, 0) is not trivially 0 *)
Example est_gradient_ex :
  let As := [[[1; 2]; [0; -1]]; [[1; 0]; [2; 1]; [-1; 3]]] in
  let subs := [[0; 2]; [1; 0]; [0; 2]]%nat in
  let f := fun x m : R => (m - x) * (m - x) in
  let g := fun x m : R => 2 * (m - x) in
  is_derive (fun t => est_F 0 1 Rplus Rmult Rminus f (upd As 1 (mset (nth 1 As []) 2 0 t)) 2 subs [3; 0; -1] [1; 2; 1] [0%nat])
            (-1)
            (mget 0 (nth 1 (est_G 0 1 Rplus Rmult Rminus g As 2 subs [3; 0; -1] [1; 2; 1] [0%nat] [2; 3]%nat) []) 2 0)
  /\ mget 0 (nth 1 (est_G 0 1 Rplus Rmult Rminus g As 2 subs [3; 0; -1] [1; 2; 1] [0%nat] [2; 3]%nat) []) 2 0 = 6.
Proof.
  intros As subs f g. split.
  - apply (est_gradient f g As 2 subs [3; 0; -1] [1; 2; 1] [0%nat] 1 2 0).
    + intros x m. unfold f, g. auto_derive; [exact I | ring].
    + repeat constructor.
    + unfold As; cbn; lia.
    + unfold As; cbn; lia.
    + lia.
    + repeat constructor.
  - unfold est_G, est_Gk, est_Y, est_m, fac_val, loo_alg, urow, mget, sum_over, sum_n, g, As, subs.
    cbn. unfold g. lra.
Qed.

Print Assumptions est_gradient_lb.
