(* Proofs/C12EndToEnd.v — T1 and T2 composed through the GENERATED objective table (wave 4): whatever (loss handle, gradient handle,
   lower bound) the generated fg_setup.setup (Gen/GenFgSetup.v, regenerated from pyttb/gcp/fg_setup.py on every run) returns for an
   objective other than negative binomial (finding A-34), the matrices fg.evaluate returns with that gradient handle are the exact partial
   derivatives of the objective fg.evaluate returns with that loss handle (unit-weight models whose entries respect the returned bound),
   and the same for fg_est.estimate on every sample set (model values at the sampled subscripts respect the bound). *)
From Coq Require Import Reals Lra List ZArith Bool Arith Lia.
Set Warnings "-ambiguous-paths".
From Coquelicot Require Import Coquelicot.
From PV Require Import Np.NpR Gen.GenHandles Proofs.C12Handles Proofs.C12Setup Proofs.C12GenTie.
From PV Require Gen.GenFgSetup.
From PV Require Import Base.Index Base.Sum Np.Array Model.Sparse Model.Repr Model.C12Gcp Proofs.C12Tensor Proofs.C12TensorR Proofs.C12EstGrad.
Import List ListNotations.
Local Open Scope R_scope.

Theorem evaluate_gradient_setup_generated :
  forall (o : GenFgSetup.Objectives) (data : option GenFgSetup.datachk) (p : option R) (fh gh : R -> R -> R) (lb : GenFgSetup.lbound)
         (K : ktensor R) (X : dense R) (w : option (dense R)) (k j r : nat),
  o <> GenFgSetup.NEGATIVE_BINOMIAL -> gparam_ok o p -> GenFgSetup.setup o data p = Some (fh, gh, lb) ->
  (forall i, inb (kshape K) i = true -> lb_ok lb (den_k 0 1 Rplus Rmult K i)) ->
  (forall q, (q < krank K)%nat -> nth q (kweights K) 0 = 1) ->
  wf_k K -> (k < length (kfactors K))%nat -> (j < nrows (nth k (kfactors K) []))%nat -> (r < krank K)%nat ->
  dshape X = kshape K ->
  is_derive (fun t => eval_F 0 1 Rplus Rmult fh (kset R K k (mset (nth k (kfactors K) []) j r t)) X w)
            (mget 0 (nth k (kfactors K) []) j r)
            (mget 0 (nth k (eval_G 0 1 Rplus Rmult gh K X w) []) j r).
Proof.
  intros o data p fh gh lb K X w k j r Hnb Hp Hs Hlb Hw Hwf Hk Hj Hr Hsh.
  apply eval_gradient_pointwise; auto.
  intros i Hi. apply (gen_setup_sound o data p fh gh lb Hnb Hp Hs). apply Hlb. now rewrite <- Hsh.
Qed.

Theorem estimate_gradient_setup_generated :
  forall (o : GenFgSetup.Objectives) (data : option GenFgSetup.datachk) (p : option R) (fh gh : R -> R -> R) (lb : GenFgSetup.lbound)
         (As : list (list (list R))) (Rk : nat) (subs : list idx) (xs ws : list R) (crng : list nat) (k j r : nat),
  o <> GenFgSetup.NEGATIVE_BINOMIAL -> gparam_ok o p -> GenFgSetup.setup o data p = Some (fh, gh, lb) ->
  (forall i, In i subs -> lb_ok lb (fac_val 0 1 Rplus Rmult As Rk i)) ->
  rows_len Rk As -> (k < length As)%nat -> (j < nrows (nth k As []))%nat -> (r < Rk)%nat ->
  List.Forall (fun i => inb (map (@nrows R) As) i = true) subs ->
  is_derive (fun t => est_F 0 1 Rplus Rmult Rminus fh (upd As k (mset (nth k As []) j r t)) Rk subs xs ws crng)
            (mget 0 (nth k As []) j r)
            (mget 0 (nth k (est_G 0 1 Rplus Rmult Rminus gh As Rk subs xs ws crng (map (@nrows R) As)) []) j r).
Proof.
  intros o data p fh gh lb As Rk subs xs ws crng k j r Hnb Hp Hs Hlb Hwf Hk Hj Hr Hsubs.
  apply est_gradient_pointwise; auto.
  intros x i Hi. apply (gen_setup_sound o data p fh gh lb Hnb Hp Hs). now apply Hlb.
Qed.

(* non-vacuity: the generated setup does return a triple (Rayleigh, no data check, no parameter), with the finite bound 0 *)
Example setup_generated_returns :
  exists fh gh, GenFgSetup.setup GenFgSetup.RAYLEIGH None None = Some (fh, gh, GenFgSetup.Finite 0).
Proof. eexists. eexists. reflexivity. Qed.

Print Assumptions evaluate_gradient_setup_generated.
Print Assumptions estimate_gradient_setup_generated.
